#!/usr/bin/env python3
# Regenerates MANIFEST.json from the table below (one entry per property).
import json
props=[json.loads(l) for l in open('/verif/properties.jsonl')]
claimed={
 "C01":("orchestrator step refinement: one symbolic command from an arbitrary valid two-tier state through the real DefaultServer.Loop and the real orcas (9 configurations) against the single-map reference; induction over histories","§C01","symbolic execution of go/ssa + SMT (Z3), inductive step from arbitrary valid state"),
 "C02":("same harness: representation invariant (L1 subset of L2, not outliving it) re-established by every command from every invariant-satisfying state, replies independent of L1 contents","§C02","symbolic execution + SMT, inductive invariant"),
 "C03":("bounded model checking of the real LockedOrca over the real L1L2 / L1L2Batch orcas: two connections (main port and batch port on one lock set) x one symbolic command each, every interleaving at lock operations and backend calls; linearizability against the reference map and L1-consistent-with-L2 at the end; both ports share locker objects and the stripe is a function of the key","§C03","exhaustive schedule exploration (bounded) with symbolic data, SMT-decided linearizability oracle"),
 "C04":("real chunked.Handler over an in-process memcached model: one symbolic command from an arbitrary well-formed backend state, result / returned bytes / complete backend post-state / set of backend keys touched compared with the reference map; derived-key injectivity for symbolic client keys","§C04","symbolic execution of the real handler + SMT, inductive step from arbitrary well-formed backend state"),
 "C05":("real chunked get / get-and-touch / append over the memcached model with every subset of a value's backend entries lost: result is the full value or a miss","§C05","symbolic execution + SMT, lost-entry subsets as environment choices"),
 "C06":("the real batching pool (conn, relay, Handler with batcher/reader/recovery goroutines) over an in-memory connection to the memcached model, differentially against the real std handler on an equal backend state: every command, gets of 1-2 keys, two callers sharing a batch","§C06","symbolic execution of the pool's goroutines + SMT, differential against the direct handler"),
 "C07":("binary and text parsers decode pipelines of symbolic requests produced by independent encoders, at every read boundary; first-byte disambiguation over all 256 bytes","§C07","symbolic execution of the real parsers + SMT, differential against independent encoders"),
 "C08":("pipelines of requests as bytes through the real parsers, DefaultServer.Loop, the real orcas (9 configurations incl. locking wrappers) and the real responders; replies decoded by independent strict decoders: one complete frame per non-quiet request, opaque echo / request order, one value per hit, one terminator per get, connection in sync after error replies","§C08","symbolic execution of parser+loop+orca+responder + SMT, differential against independent strict decoders"),
 "C09":("orchestrator step with deadlines as first-class symbolic state and full 32-bit symbolic TTLs","§C09","symbolic execution + SMT over 32-bit TTL arithmetic"),
 "C10":("whole stack (real parser, DefaultServer.Loop, orcas, real std handlers, binary backend protocol) over in-process memcached models with one injected backend fault (10 error statuses; connection closed before / after / inside a reply) at a symbolic request index on L1 or L2: termination, no crash, only complete frames to the client, connections closed, second client served, value read back is old / new / miss and never old after an acknowledged write or delete","§C10","symbolic execution of the whole stack + SMT, fault position/kind as environment choices"),
 "C11":("whole binary header space (2^8 opcodes x 2^16 key x 2^8 extras x 2^32 total) through the real parser and server loop with an allocation log; arbitrary text command lines","§C11","symbolic execution + SMT, allocation-size assertions before concretisation"),
 "C12":("LockedOrca over fault-injecting model handlers: fault position/kind symbolic choices, lock discipline observed through instrumented lockers; sequential part","§C12","symbolic execution + SMT with enumerated fault positions"),
 "C14":("pool discipline under a havoc-on-release model of sync.Pool (whole stack, wire level, chunked handler) with double-Put detection; one handler instance per client connection in the real ListenAndServe even when a client's first byte arrives late; two lock-free connections on different keys under every interleaving at backend calls","§C14","symbolic execution + SMT with an adversarial sync.Pool model; bounded schedule exploration"),
 "C15":("real ListenAndServe over a fake listener: a client stream cut at every byte offset then EOF; at quiescence sockets and backend connections closed, no goroutine or key lock left, a fresh client served","§C15","symbolic execution of accept loop + connection loop, cut offset as environment choice, quiescence assertions"),
 "C13":("the real batching pool with its pooled connection cut before / after / inside a symbolic reply: one outcome per call, no partial multi-key answer without an error, own data only, pool serves again after reconnecting","§C13","symbolic execution of the pool's goroutines + SMT, cut position/kind as environment choices"),
 "C16":("chunk arithmetic kernels with symbolic lengths: sizes for all key lengths, FP chunk count per key length, slice indices, reader step induction, metadata of the real set path on an abstract-length value","§C16","symbolic execution + SMT incl. floating-point theory"),
 "C17":("real inmem.Handler vs reference map: one symbolic command from every 2-key map state; 2 goroutines x 1 command under every interleaving at lock granularity with a lock-discipline monitor on the shared map","§C17","symbolic execution + SMT; exhaustive schedule exploration (bounded) with lock-discipline monitor"),
 "C18":("bit-count routine (amd64 assembly translated, portable body) equals its specification on all 2^64 inputs; bucket index in range, upper bound and monotone for all n <= 2^63-1; histogram periods read back through getAll*: count, percentiles within [min,max] and among the observations, ring wrap-around; counters = sum of increments under every interleaving of 2 goroutines; observer vs period switch under every interleaving","§C18","SSA and assembly translated to SMT bit-vectors, Z3"),
 "C19":("ring lookup for every 32-bit location on enumerated label sets: specification, order independence, single-removal stability; set and get of a symbolic key through two separately built cluster handlers reach the same node (MD5 uninterpreted)","§C19","symbolic execution + SMT, one path per ring interval"),
}
notes={
 "C01":"orchestrator step over model handlers, plus a fault-free whole-stack glue run with the real std handlers over the memcached model (thorough: wire-level pipelines of C08); bounds: 2 keys, values <= 2 bytes, gets <= 2 keys, clock frozen within a command",
 "C02":"as C01; eviction invisibility follows from the pre-state ranging over every L1 subset of L2",
 "C03":"2 connections x 1 command; 1 key / 1 stripe (quick), 2 keys / 2 stripes with the first command in {set,delete,gat,get} and a 2-key get against a set (thorough); a get of n keys is linearized as n per-key reads; more connections and longer programs outside the bound; app/memproxy.go wiring of the constructors is not executed (the constructors it calls are)",
 "C04":"key lengths 5 (quick), 1 and 250 (thorough); value lengths {0,1,2,p-1,p,p+1,2p,2p+1} (+3p thorough); long values symbolic at the chunk borders only; one known finding (surplus chunks of an overwritten longer value survive delete)",
 "C05":"1..3 chunks quick, 1..6 thorough; interleaved concurrent writers are not part of the check yet",
 "C06":"pool of 1 connection, batch sizes 1-2, <= 2 callers, one legal schedule per path (caller interleavings not explored exhaustively); pool growth (monitor) and the dial are not executed",
 "C07":"lengths concrete per run (listed in evidence), contents symbolic; > 2 requests per pipeline and > 1 cut (quick) outside the bound",
 "C08":"model handlers stand for the backends; pipelines of 2; 2 keys; values <= 2 bytes; text flags <= 9 in quick; stats excluded",
 "C09":"orchestrator level with model handlers, plus the real chunked handler over the memcached model (deadline of every backend entry and the metadata Exptime field); batched handler TTL (gete) not yet part of this check",
 "C10":"one known finding (set acknowledged when the L1 write and the compensating L1 delete both fail with an I/O error); one fault per run; whole stack with std handlers (1-2 keys, 2-byte values), a follow-up read on the same client connection, and the chunked handler alone (1-3 chunks); batching-pool faults belong to C13; promptness is 'no read that would wait for ever and no re-reading of a dead connection', not wall-clock",
 "C11":"consistent frames bounded to 23 body bytes, contradictory frames all covered; text lines of 6 (quick) / 9 (thorough) ASCII bytes",
 "C12":"sequential fault positions 0..1 (quick) / 0..3 (thorough); concurrent deadlock-freedom belongs to the schedule exploration of C03",
 "C14":"claimed in part: data-race freedom under the Go memory model over real schedules is NOT decided (no happens-before model); 2 connections; pools modelled adversarially (arbitrary contents after Put)",
 "C15":"4 representative request streams (3 text, 1 binary), std handlers; chunked handler and half-open connections outside the bound",
 "C13":"claimed in part: channel hand-off protocol and caller-side retry under connection cuts at every reply position; real sockets, back-off timing, refused reconnects, pools of several connections are outside",
 "C16":"FP detour decided for key lengths {1,5,100,250} (quick) + {2,16,50,150,200,249} (thorough); reader step buffer length <= 8",
 "C17":"TTLs up to 30 days; 2 goroutines x 1 command; boundary second exptime == now left out",
 "C18":"histograms: unsampled, <= 2 (quick) / 3 (thorough) observations per period; 2 goroutines; float average and HTTP rendering not compared",
 "C19":"label sets enumerated: sizes 1,2,3,4,8 (quick), 3,5,16,32 (thorough); MD5 trusted; key->location hashing covered by quantifying over all locations",
}
checks=[]
for pid in sorted(claimed):
    text,ref,tech=claimed[pid]
    checks.append({"property_id":pid,"quick_cmd":"./check %s quick"%pid,"thorough_cmd":"./check %s thorough"%pid,
      "evidence_file":"/verif/evidence/%s.json"%pid,"replay_cmd_template":"./check replay {path}","engine":"symgo",
      "level_claimed":{"category":"model_checking","text":text+"; every assertion on every explored path is decided by the solver for all values of the symbolic inputs inside the stated bounds; counterexamples are replayed against the natively compiled code before they are reported","design_ref":ref},
      "level_note":notes[pid]+"; trusted: go/ssa lowering, the interpreted standard library, the environment stubs listed in the evidence, Z3 5.1.0","technique":tech})
na=[{"property_id":p['id'],"reason":"check not built yet (work in progress; design in DESIGN.md)"} for p in props if p['id'] not in claimed]
m={"version":1,"setup_cmd":"cd /verif && ./setup.sh",
"hooks":{"guard":"verif","enable":"none needed: harnesses enter by go/packages overlay and `go test -overlay`; no tagged files in /repo","baseline_off_cmd":"cd /repo && go test -vet=off -count=1 ./...","source_commits":[],"add_only":True},
"engines":[{"name":"symgo","path":"/verif/symgo","serves_properties":sorted(claimed),"kind_free_text":"symbolic executor for go/ssa (fork of x/tools ssa/interp) + SMT (Z3 5.1.0 deciding, Z3 4.8.12/cvc5 cross-check in thorough)"}],
"checks":checks,"not_applicable":na,
"notes":"exit 0 = held on everything explored (KNOWN-FINDING lines possible), 1 = VIOLATION, 2 = inconclusive (never success)"}
json.dump(m,open('/verif/MANIFEST.json','w'),indent=1)
print(len(checks),"checks",len(na),"not applicable")
