#!/bin/bash
# try_seed.sh <patch> <check ids...> : apply patch to /repo, run the quick checks, undo.
P=$1; shift
cd /repo && git apply $P || exit 2
for c in "$@"; do /verif/check $c quick 2>&1 | grep -v conda | grep "VIOLATION\|KNOWN\|INCONCL\|violations=" | cut -c1-300; done
git -C /repo checkout -- .
git -C /repo status --short | head -3
