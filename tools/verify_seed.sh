#!/bin/bash
# verify_seed.sh <outdir> <worktree> <pkgdir> <run-regex>
# Confirms a seeded change: compiles, suite passes with it, demo fails with it and passes without it.
set -u
OUT=$1; WT=$2; PKG=$3; RUN=$4
export GOFLAGS=-mod=mod GOPROXY=off GOSUMDB=off GOTOOLCHAIN=local
cd $WT || exit 2
git checkout -q -- . ; git clean -fdq
cp $OUT/demo_test.go $PKG/zz_demo_test.go
echo "--- demo WITHOUT change"; go test -vet=off -count=1 -run "$RUN" ./$PKG/ 2>&1 | tail -3; r0=${PIPESTATUS[0]}
git apply $OUT/patch.diff || { echo APPLY-FAILED; exit 2; }
echo "--- demo WITH change"; go test -vet=off -count=1 -run "$RUN" ./$PKG/ 2>&1 | tail -3; r1=${PIPESTATUS[0]}
rm $PKG/zz_demo_test.go
echo "--- suite WITH change"; go test -vet=off -count=1 ./... 2>&1 | grep -v "no test files" | grep -v "^ok" | head -8
go test -vet=off -count=1 -json ./... 2>/dev/null | grep -c '"Action":"pass","Package":"[^"]*","Test"' 
git checkout -q -- . ; git clean -fdq
echo "RESULT without=$r0 with=$r1"
