#!/bin/bash
# seedtrial.sh <seed dir> <check ids...>: run quick checks against a scratch worktree of /repo
# with the seeded change applied (nothing in /repo or /verif/evidence is touched).
S=$1; shift
TIER=${TIER:-quick}
WT=$(mktemp -d /tmp/seedtrial.XXXX)
git -C /repo worktree add -q --detach $WT HEAD || exit 2
git -C $WT apply $S/patch.diff || { echo APPLY-FAILED; git -C /repo worktree remove --force $WT; exit 2; }
OUT=$(mktemp -d /tmp/seedtrial-out.XXXX)
for c in "$@"; do
  VERIF_REPO=$WT VERIF_OUT=$OUT /verif/check $c $TIER 2>&1 | grep -v conda | grep "VIOLATION\|KNOWN\|INCONCL\|violations=\|assertion=" | cut -c1-260
done
git -C /repo worktree remove --force $WT; rm -rf $OUT
