#!/bin/bash
# verify_all_seeds.sh <seedout root> [ids...]: confirm each seeded change in a scratch worktree:
# demo passes without it, fails with it, build + full suite pass with it. Copies confirmed ones to /verif/seeded/<id><v>/.
export GOFLAGS=-mod=mod GOPROXY=off GOSUMDB=off GOTOOLCHAIN=local
ROOT=$1; shift
WT=/tmp/wt/verify
[ -d $WT ] || git -C /repo worktree add -q --detach $WT HEAD
for d in $ROOT/*/[a-f]; do
  id=$(basename $(dirname $d)); v=$(basename $d)
  if [ $# -gt 0 ]; then case " $* " in *" $id "*) ;; *) continue;; esac; fi
  [ -f $d/meta.json ] || { echo "$id$v: no meta.json"; continue; }
  [ -d /verif/seeded/$id$v ] && { echo "$id$v: already kept"; continue; }
  dir=$(python3 -c "import json;print(json.load(open('$d/meta.json'))['demo_dir'])")
  run=$(python3 -c "import json;print(json.load(open('$d/meta.json'))['demo_run'])"); run=${run#-run }
  cd $WT; git checkout -q -- . ; git clean -fdq
  cp $d/demo_test.go $dir/zz_seeddemo_test.go
  timeout 300 go test -vet=off -count=1 -run "$run" ./$dir/ >/tmp/vs_without.log 2>&1; r0=$?
  git apply $d/patch.diff || { echo "$id$v: APPLY-FAILED"; continue; }
  timeout 300 go test -vet=off -count=1 -run "$run" ./$dir/ >/tmp/vs_with.log 2>&1; r1=$?
  rm $dir/zz_seeddemo_test.go
  go build $(go list ./... | grep -v '/app$') >/tmp/vs_build.log 2>&1; rb=$?
  npass=$(timeout 900 go test -vet=off -count=1 -json ./... 2>/dev/null | grep -c '"Action":"pass".*"Test"')
  nfail=$(timeout 900 go test -vet=off -count=1 ./... 2>&1 | grep -v "app \[build failed\]\|^FAIL$" | grep -c "^FAIL\|^--- FAIL")
  git checkout -q -- . ; git clean -fdq
  verdict=REJECT
  if [ $r0 = 0 ] && [ $r1 != 0 ] && [ $rb = 0 ] && [ "$npass" = 132 ] && [ "$nfail" = 0 ]; then
    verdict=KEEP
    mkdir -p /verif/seeded/$id$v
    cp $d/patch.diff $d/demo_test.go /verif/seeded/$id$v/
    python3 - $d/meta.json /verif/seeded/$id$v/meta.json <<PY
import json,sys
m=json.load(open(sys.argv[1]))
m['confirmed']={'demo_without_change':'pass','demo_with_change':'fail','build_with_change':'ok','suite_with_change':'132 pass, 0 fail (go test -vet=off -count=1 ./..., package app has no tests and does not build on the unchanged tree either)','how':'tools/verify_all_seeds.sh in a scratch worktree of /repo HEAD, removed afterwards'}
json.dump(m,open(sys.argv[2],'w'),indent=1)
PY
  fi
  echo "$id$v: without=$r0 with=$r1 build=$rb pass=$npass fail=$nfail -> $verdict"
done
cd /; git -C /repo worktree remove --force $WT
