#!/bin/sh
# Builds the symgo engine offline from the module cache.
set -e
cd "$(dirname "$0")"
export GOFLAGS=-mod=mod GOPROXY=off GOSUMDB=off GOTOOLCHAIN=local
mkdir -p bin
go build -o bin/symgo ./symgo/cmd/symgo
