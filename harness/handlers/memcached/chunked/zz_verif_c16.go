package chunked

// Harnesses for C16 (fixed-size chunk discipline) and the arithmetic shared with C04.

import (
	"encoding/binary"
	"io"

	"github.com/netflix/rend/common"
	"github.com/netflix/rend/zz_verif/rt"
)

// ZZSetup keeps the token generator from filling its 1000-slot buffer on every path.
func ZZSetup() {
	rt.ChanCap(tokens, 2)
}

const zzSlab = 1184
const zzItemOverhead = 67

// ZZChunkSize: payload and full chunk size depend only on the key length, and backend key +
// value + item overhead fit the slab for chunk indices below 1000.
func ZZChunkSize() {
	kl := rt.IntIn("keylen", 1, 250)
	data, full := chunkSize(kl)
	rt.Reach("chunksize")
	rt.Assert("c16-full-size", int(full) == 1113-kl)
	rt.Assert("c16-data-size", int(data) == int(full)-tokenSize)
	rt.Assert("c16-slab-budget", kl+4+int(full)+zzItemOverhead <= zzSlab)
	rt.Assert("c16-meta-constant", metadataSize == 40)
}

// ZZChunkKeyLen: the backend key of chunk i (i < 1000) is at most 4 bytes longer than the
// client key, the metadata key 5 bytes.
func ZZChunkKeyLen() {
	kl := rt.Param("keylen", 5)
	key := make([]byte, kl, kl+8)
	for i := range key {
		key[i] = 'k'
	}
	i := rt.IntIn("chunk", 0, 999)
	ck := chunkKey(key, i)
	rt.Reach("chunkkey")
	rt.Assert("c16-chunk-key-len", len(ck) <= kl+4)
	rt.Assert("c16-chunk-key-prefix", rt.BytesEq(ck[:kl], key))
	rt.Assert("c16-chunk-key-dash", ck[kl] == '-')
	// the digits render the index
	v := 0
	for _, d := range ck[kl+1:] {
		rt.Assert("c16-chunk-key-digit", rt.And(d >= '0', d <= '9'))
		v = v*10 + int(d-'0')
	}
	rt.Assert("c16-chunk-key-index", v == i)
	rt.Assert("c16-meta-key-len", len(metaKey(append([]byte(nil), key...))) == kl+5)
}

// ZZNumChunks: the chunk count computed through float64 equals ceil(L/payload) for every
// value length up to 999 chunks (key length fixed per run: the divisor must be a constant for
// the floating-point query to be decidable).
func ZZNumChunks() {
	kl := rt.Param("keylen", 5)
	data, _ := chunkSize(kl)
	p := int64(data)
	L := rt.I64("L")
	rt.Assume(rt.And(L >= 0, L <= 999*p))
	r := newChunkLimitedReader(nil, p, L)
	rt.Reach("numchunks")
	rt.Assert("c16-numchunks-is-ceil", r.d.numChunks == (L+p-1)/p)
}

type zzFirstReq struct {
	buf   []byte
	check func(key []byte, flags, ttl uint32, body []byte)
}

func (c *zzFirstReq) Write(p []byte) (int, error) {
	c.buf = append(c.buf, p...)
	if len(c.buf) >= 24 {
		kl := int(binary.BigEndian.Uint16(c.buf[2:4]))
		el := int(c.buf[4])
		total := int(binary.BigEndian.Uint32(c.buf[8:12]))
		if len(c.buf) >= 24+total {
			ex := c.buf[24 : 24+el]
			c.check(c.buf[24+el:24+el+kl], binary.BigEndian.Uint32(ex[0:4]), binary.BigEndian.Uint32(ex[4:8]), c.buf[24+el+kl:24+total])
			rt.Stop()
		}
	}
	return len(p), nil
}
func (c *zzFirstReq) Read(p []byte) (int, error) { return 0, io.EOF }
func (c *zzFirstReq) Close() error               { return nil }

// ZZSetMetadata: the real set path run on a value whose length is a symbol; the metadata
// record the backend receives has constant size and says length L, payload size, ceil(L/p)
// chunks. The path ends after that first request.
func ZZSetMetadata() {
	kl := rt.Param("keylen", 5)
	key := make([]byte, kl)
	for i := range key {
		key[i] = 'k'
	}
	data, _ := chunkSize(kl)
	p := int64(data)
	L := rt.I64("L")
	rt.Assume(rt.And(L >= 0, L <= 999*p))
	flags := rt.U32("flags")
	conn := &zzFirstReq{}
	conn.check = func(k []byte, f, ttl uint32, body []byte) {
		rt.Reach("first-request")
		rt.Assert("c16-meta-key", string(k) == string(key)+"-meta")
		rt.Assert("c16-meta-size", len(body) == 40)
		if len(body) != 40 {
			return
		}
		rt.Assert("c16-meta-length", int64(binary.BigEndian.Uint32(body[0:4])) == L)
		rt.Assert("c16-meta-flags", rt.And(binary.BigEndian.Uint32(body[4:8]) == flags, f == flags))
		rt.Assert("c16-meta-numchunks", int64(binary.BigEndian.Uint32(body[8:12])) == (L+p-1)/p)
		rt.Assert("c16-meta-chunksize", int64(binary.BigEndian.Uint32(body[12:16])) == p)
	}
	h := NewHandler(conn)
	h.Set(common.SetRequest{Key: key, Data: rt.BytesLen(int(L)), Flags: flags, Exptime: 0})
	rt.Fail("c16-set-did-not-reach-backend", "set returned without sending the metadata request")
}

// ZZSliceIndices: the reassembly indices stay inside the value and tile it.
func ZZSliceIndices() {
	cs := rt.IntIn("chunksize", 1, 1112)
	n := rt.IntIn("chunknum", 0, 999)
	total := rt.Int("total")
	rt.Assume(rt.And(total >= 0, total <= 999*cs))
	rt.Assume(n*cs < total) // chunk n exists
	start, end := chunkSliceIndices(cs, n, total)
	rt.Reach("indices")
	rt.Assert("c16-start", start == cs*n)
	rt.Assert("c16-end-is-min", end == rt.IteInt(start+cs < total, start+cs, total))
	rt.Assert("c16-inside", rt.And(start < end, end <= total))
}

// zzStubReader returns an arbitrary count 0..len(p) of source bytes.
type zzStubReader struct{ calls int }

func (r *zzStubReader) Read(p []byte) (int, error) {
	r.calls++
	if len(p) == 0 {
		return 0, nil
	}
	n := rt.IntIn("n", 0, len(p))
	n = rt.Fix(n)
	for i := 0; i < n; i++ {
		p[i] = 0xAA
	}
	return n, nil
}

// ZZReaderStep: one Read of the chunk iterator from an arbitrary state satisfying its
// invariant (0 <= chunkRem <= chunkSize, remaining >= 0, doneChunks <= numChunks): the
// invariant is preserved, never more than the rest of the chunk (nor, while the value lasts,
// more than the rest of the value) is delivered, source bytes while the value lasts and zeros
// afterwards, EOF exactly at a chunk end. By induction over Reads every chunk delivers exactly
// chunkSize bytes: min(remaining, chunkSize) value bytes followed by zero padding.
func ZZReaderStep() {
	cs := rt.I64("chunksize")
	remaining := rt.I64("remaining")
	done := rt.I64("done")
	nc := rt.I64("numchunks")
	rem := rt.I64("chunkrem")
	rt.Assume(rt.And(cs >= 1, cs <= 1112))
	rt.Assume(rt.And(remaining >= 0, remaining <= 999*1112))
	rt.Assume(rt.And(nc >= 0, nc <= 999))
	rt.Assume(rt.And(done >= 0, done <= nc))
	rt.Assume(rt.And(rem >= 0, rem <= cs))
	src := &zzStubReader{}
	d := &clrData{reader: src, remaining: remaining, chunkSize: cs, chunkRem: rem, numChunks: nc, doneChunks: done}
	r := chunkedLimitedReader{d: d}
	plen := rt.Choice("plen", 9)
	p := make([]byte, plen)
	for i := range p {
		p[i] = 0x55
	}
	n, err := r.Read(p)
	rt.Reach("read")
	rt.Assert("c16-read-count-range", rt.And(n >= 0, n <= plen))
	rt.Assert("c16-read-within-chunk", int64(n) <= rem)
	rt.Assert("c16-read-within-value", rt.Implies(remaining > 0, int64(n) <= remaining))
	rt.Assert("c16-chunkrem-accounting", d.chunkRem == rem-int64(n))
	rt.Assert("c16-remaining-accounting", d.remaining == rt.IteI64(remaining > 0, remaining-int64(n), remaining))
	rt.Assert("c16-invariant-preserved", rt.And(rt.And(d.chunkRem >= 0, d.chunkRem <= cs), rt.And(d.remaining >= 0, d.doneChunks <= d.numChunks)))
	if err == io.EOF {
		rt.Assert("c16-eof-only-at-chunk-end-or-done", rt.Or(rem == 0, done >= nc))
		rt.Assert("c16-eof-delivers-nothing", n == 0)
	} else {
		rt.Assert("c16-no-other-error", err == nil)
		rt.Assert("c16-no-eof-mid-chunk", rt.And(rem > 0, done < nc))
		for i := 0; i < n; i++ {
			rt.Assert("c16-padding-is-zero", rt.Implies(remaining <= 0, p[i] == 0))
			rt.Assert("c16-data-from-source", rt.Implies(remaining > 0, p[i] == 0xAA))
		}
		rt.Assert("c16-padding-progress", rt.Implies(rt.And(plen > 0, remaining <= 0), n > 0))
	}
	// NextChunk from the resulting state
	r.NextChunk()
	rt.Assert("c16-nextchunk", rt.And(d.doneChunks == rt.IteI64(done < nc, done+1, done), rt.Implies(done < nc, d.chunkRem == cs)))
}
