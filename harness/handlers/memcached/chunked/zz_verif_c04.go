package chunked

// Harnesses for C04 (chunked storage is transparent), C05 (all-or-nothing reads), the handler
// part of C09 (TTL of every backend entry) and the composition clause of C16 (every data entry
// has the full chunk size): the real chunked.Handler over the in-process memcached model.

import (
	"encoding/binary"
	"time"

	"github.com/netflix/rend/common"
	"github.com/netflix/rend/zz_verif/model"
	"github.com/netflix/rend/zz_verif/rt"
)

func zzKey(kl int) []byte {
	k := make([]byte, kl)
	for i := range k {
		k[i] = 'k'
	}
	return k
}

// zzValue: a value of n bytes. Short values are fully symbolic; long ones are symbolic at the
// positions that matter for chunking (first and last byte, both sides of every chunk border)
// and a concrete position-dependent pattern elsewhere (stated in the bounds).
func zzValue(name string, n, p int) []byte {
	if n <= 8 {
		return rt.Bytes(name, n)
	}
	v := make([]byte, n)
	for i := range v {
		v[i] = byte(i*7 + 3)
	}
	sym := func(i int) {
		if i >= 0 && i < n {
			v[i] = rt.U8(name + "@" + zzItoa(i))
		}
	}
	sym(0)
	sym(n - 1)
	for b := p; b < n+1; b += p {
		sym(b - 1)
		sym(b)
	}
	return v
}

// zzTok draws a token for a pre-stored value from the real token generator, so that A2 (the
// random source never repeats a 16-byte token) also separates stored tokens from new ones.
func zzTok() []byte {
	t := <-tokens
	return append([]byte(nil), t[:]...)
}

func zzItoa(i int) string {
	if i == 0 {
		return "0"
	}
	s := ""
	for i > 0 {
		s = string(rune('0'+i%10)) + s
		i /= 10
	}
	return s
}

// zzLens: the value lengths of one run (p = payload per chunk for the key length).
func zzLens(set, p int) []int {
	switch set {
	case 1:
		return []int{p - 1, p, p + 1}
	case 2:
		return []int{0, 2 * p, 2*p + 1}
	case 3:
		return []int{1, p, 3 * p}
	case 4:
		return []int{2*p - 1, 3*p + 1, 4 * p}
	case 5:
		return []int{p + 1, 2 * p, 5*p - 1}
	}
	return []int{0, 1, 2}
}

// zzStore writes one complete chunked value into the backend model, as a set at some earlier
// time would have left it: metadata record + every chunk (token + payload, zero padded), all
// with the same deadline, metadata.Exptime = that deadline.
func zzStore(mc *model.MC, key []byte, v []byte, flags uint32, tok []byte, deadline int64) {
	data, full := chunkSize(len(key))
	if zzForeignLayout != 0 {
		// an item written with another chunk geometry (another client / build): readable, since
		// the metadata says how it is laid out
		data = uint32(int(data) + zzForeignLayout)
		full = data + tokenSize
	}
	p := int(data)
	n := (len(v) + p - 1) / p
	md := make([]byte, metadataSize)
	binary.BigEndian.PutUint32(md[0:4], uint32(len(v)))
	binary.BigEndian.PutUint32(md[4:8], flags)
	binary.BigEndian.PutUint32(md[8:12], uint32(n))
	binary.BigEndian.PutUint32(md[12:16], data)
	binary.BigEndian.PutUint32(md[16:20], 0)
	binary.BigEndian.PutUint32(md[20:24], uint32(deadline))
	copy(md[24:], tok)
	mc.Put(string(key)+"-meta", true, md, flags, deadline)
	for i := 0; i < n; i++ {
		c := make([]byte, int(full))
		copy(c, tok)
		end := (i + 1) * p
		if end > len(v) {
			end = len(v)
		}
		copy(c[tokenSize:], v[i*p:end])
		mc.Put(string(key)+"-"+zzItoa(i), true, c, flags, deadline)
	}
}

// zzForeignLayout != 0: pre-stored items use a chunk payload that differs by this many bytes
// from the handler's own geometry.
var zzForeignLayout int

type zzDecoded struct {
	wellFormed bool // metadata live => every chunk live, full size, same token
	present    bool
	data       []byte
	flags      uint32
	metaExp    uint32
	deadline   int64 // of the metadata entry
	sameDeadline bool // every entry of the key has the metadata's deadline
	why        string
}

func zzLive(mc *model.MC, k string) *model.Item {
	it := mc.Items[k]
	if it == nil {
		return nil
	}
	if !rt.FixBool(rt.And(it.Present, model.Live(it.Deadline, mc.Now))) {
		return nil
	}
	return it
}

// zzDecode reads the value of key back from the backend model, independently of the handler.
func zzDecode(mc *model.MC, key []byte) zzDecoded {
	d := zzDecoded{wellFormed: true, sameDeadline: true}
	m := zzLive(mc, string(key)+"-meta")
	if m == nil {
		return d
	}
	if len(m.Data) != metadataSize {
		d.wellFormed, d.why = false, "metadata size"
		return d
	}
	length := int(rt.FixU64(uint64(binary.BigEndian.Uint32(m.Data[0:4]))))
	nch := int(rt.FixU64(uint64(binary.BigEndian.Uint32(m.Data[8:12]))))
	cs := int(rt.FixU64(uint64(binary.BigEndian.Uint32(m.Data[12:16]))))
	data, full := chunkSize(len(key))
	if cs != int(data) || nch != (length+cs-1)/cs {
		d.wellFormed, d.why = false, "metadata arithmetic"
		return d
	}
	d.present = true
	d.flags = binary.BigEndian.Uint32(m.Data[4:8])
	d.metaExp = binary.BigEndian.Uint32(m.Data[20:24])
	d.deadline = m.Deadline
	tok := m.Data[24:]
	d.data = make([]byte, 0, length)
	for i := 0; i < nch; i++ {
		c := zzLive(mc, string(key)+"-"+zzItoa(i))
		if c == nil || len(c.Data) != int(full) {
			d.wellFormed, d.why = false, "chunk missing or wrong size"
			return d
		}
		if !rt.FixBool(rt.BytesEq(c.Data[:tokenSize], tok)) {
			d.wellFormed, d.why = false, "chunk token differs"
			return d
		}
		end := (i + 1) * cs
		if end > length {
			end = length
		}
		d.data = append(d.data, c.Data[tokenSize:tokenSize+end-i*cs]...)
		for _, z := range c.Data[tokenSize+end-i*cs:] {
			if rt.FixU64(uint64(z)) != 0 {
				d.wellFormed, d.why = false, "padding not zero"
			}
		}
		d.sameDeadline = rt.And(d.sameDeadline, c.Deadline == m.Deadline)
	}
	return d
}

// zzDerived: is k an entry derived from client key (metadata or numbered chunk < 1000)?
func zzDerived(k string, key []byte) bool {
	p := string(key)
	if len(k) <= len(p)+1 || k[:len(p)] != p || k[len(p)] != '-' {
		return false
	}
	s := k[len(p)+1:]
	if s == "meta" {
		return true
	}
	if len(s) > 3 || (len(s) > 1 && s[0] == '0') {
		return false
	}
	for _, c := range s {
		if c < '0' || c > '9' {
			return false
		}
	}
	return true
}

const (
	zSet = iota
	zAdd
	zReplace
	zAppend
	zPrepend
	zDelete
	zTouch
	zGat
	zGet
	zNCmds
)

var zzCmdName = []string{"set", "add", "replace", "append", "prepend", "delete", "touch", "gat", "get"}

type zzWorld struct {
	now  int64
	mc   *model.MC
	ref  *model.Store // slot i = client key i
	keys [][]byte
	h    Handler
	deleted int // 1 + index of the key the command deleted (0: the command was not a delete)
}

// noEntry: after a delete no backend entry derived from the key is readable.
func (w *zzWorld) noEntry(p string, key []byte) {
	for _, k := range w.mc.Order {
		if zzDerived(k, key) {
			rt.Assert(p+"-delete-leaves-no-readable-entry", zzLive(w.mc, k) == nil)
		}
	}
}

func zzNewWorld(kl, nkeys, lenset int) *zzWorld {
	w := &zzWorld{}
	w.now = rt.I64("now")
	rt.Assume(rt.And(w.now >= 1700000000, w.now < 1<<31))
	shift := int64(0)
	if !rt.Symbolic() {
		// native replay: the handler reads the real clock, so the backend model must too;
		// stored deadlines keep their distance from "now"
		real := time.Now().Unix()
		shift = real - w.now
		w.now = real
	}
	rt.ClockSet(w.now)
	rt.ClockFreeze(true) // A1: one instant per command
	rt.RandDistinct(true) // A2: tokens drawn from crypto/rand are pairwise distinct
	if rt.Param("poolhavoc", 0) == 1 {
		rt.PoolHavoc(true) // C14: a pooled object has arbitrary contents once it is back in its pool
	}
	w.mc = model.NewMC("mc", w.now)
	w.ref = &model.Store{Name: "ref"}
	data, _ := chunkSize(kl)
	lens := zzLens(lenset, int(data))
	for i := 0; i < nkeys; i++ {
		key := zzKey(kl)
		key[kl-1] = byte('a' + i)
		w.keys = append(w.keys, key)
		n := "k" + zzItoa(i)
		if rt.Choice(n+".present", 2) == 1 {
			L0 := lens[rt.Choice(n+".len", len(lens))]
			v0 := zzValue(n+".v", L0, int(data))
			fl := rt.U32(n + ".flags")
			tok := zzTok()
			dl := rt.I64(n + ".deadline")
			rt.Assume(rt.Or(dl == 0, rt.And(dl > w.now-shift, dl < 1<<32)))
			dl = rt.IteI64(dl != 0, dl+shift, dl)
			zzStore(w.mc, key, v0, fl, tok, dl)
			w.ref.E[i] = model.Entry{Present: true, Data: v0, Flags: fl, Deadline: dl}
		}
	}
	w.h = NewHandler(w.mc)
	return w
}

// check compares the backend contents with the reference map for every key.
func (w *zzWorld) check(p string) {
	for i, key := range w.keys {
		d := zzDecode(w.mc, key)
		e := &w.ref.E[i]
		rt.Assert(p+"-backend-state-well-formed", d.wellFormed)
		if !d.wellFormed {
			rt.Logf("not well formed: %s", d.why)
			continue
		}
		refPresent := rt.FixBool(e.Present)
		rt.Assert(p+"-presence-as-map", d.present == refPresent)
		if d.present && refPresent {
			rt.Assert(p+"-value-as-map", len(d.data) == len(e.Data) && rt.BytesEq(d.data, e.Data))
			rt.Assert(p+"-flags-as-map", d.flags == e.Flags)
			rt.Assert("c09-chunked-metadata-deadline", d.deadline == e.Deadline)
			rt.Assert("c09-chunked-every-entry-same-deadline", d.sameDeadline)
			rt.Assert("c09-chunked-metadata-exptime-field", d.metaExp == uint32(e.Deadline))
		}
		if !refPresent && w.deleted == i+1 {
			w.noEntry(p, key)
		}
	}
	rt.Assert(p+"-backend-connection-drained", w.mc.Starved == 0 && func() bool { a, b := w.mc.Pending(); return a == 0 && b == 0 }())
}

// only: every request the backend saw while serving key carries a key derived from it; every
// data entry written has the full chunk size, every metadata entry 40 bytes (C16 composition).
func (w *zzWorld) only(p string, keys [][]byte, from int) {
	_, full := chunkSize(len(keys[0]))
	for _, rq := range w.mc.Log[from:] {
		if rq.Op == 0x0a { // no-op terminator
			continue
		}
		der := false
		for _, key := range keys {
			der = der || zzDerived(rq.Key, key)
		}
		rt.Assert(p+"-only-derived-entries-touched", der)
		if rq.Op == 0x01 || rq.Op == 0x02 || rq.Op == 0x03 {
			if len(rq.Key) >= 5 && rq.Key[len(rq.Key)-5:] == "-meta" {
				rt.Assert("c16-metadata-entry-size", rq.DataLen == metadataSize)
			} else {
				rt.Assert("c16-data-entry-full-size", rq.DataLen == int(full))
			}
		}
	}
}

// zzWithCap returns a copy of key with the given spare capacity (request keys produced by the
// parsers have spare capacity: make/[]byte(string) round up to a size class).
func zzWithCap(key []byte, spare int) []byte {
	k := make([]byte, len(key), len(key)+spare)
	copy(k, key)
	return k
}

func zzGetOne(h Handler, key []byte, opaque uint32) (common.GetResponse, int, error) {
	out, errs := h.Get(common.GetRequest{Keys: [][]byte{key}, Opaques: []uint32{opaque}, Quiet: []bool{false}})
	var last common.GetResponse
	n := 0
	var err error
	for out != nil || errs != nil {
		select {
		case r, ok := <-out:
			if !ok {
				out = nil
				continue
			}
			last = r
			n++
		case e, ok := <-errs:
			if !ok {
				errs = nil
				continue
			}
			err = e
		}
	}
	return last, n, err
}

// ZZChunkedStep: one symbolic command on the real chunked handler from an arbitrary
// well-formed backend state; result and post-state are those of the reference map.
func ZZChunkedStep() {
	kl := rt.Param("keylen", 5)
	nkeys := rt.Param("nkeys", 1)
	lenset := rt.Param("lenset", 0)
	zzForeignLayout = rt.Param("foreign", 0)
	w := zzNewWorld(kl, nkeys, lenset)
	zzForeignLayout = 0
	data, _ := chunkSize(kl)
	lens := zzLens(rt.Param("cmdlenset", lenset), int(data))
	var kind int
	if k := rt.Param("cmd", -1); k >= 0 {
		kind = k
	} else {
		kind = rt.Choice("cmd", zNCmds)
	}
	ki := rt.Choice("key", nkeys)
	spares := []int{0, 5, 8}
	key := zzWithCap(w.keys[ki], spares[rt.Choice("sparecap", len(spares))])
	keyCopy := append([]byte(nil), key...)
	flags := rt.U32("flags")
	ttl := rt.U32("ttl")
	opaque := rt.U32("opaque")
	from := len(w.mc.Log)
	ref := w.ref
	p := "c04"
	if rt.Param("c05", 0) == 1 {
		p = "c05" // the multi-key get job of C05: every value returned is one that was written whole
	}
	switch kind {
	case zSet, zAdd, zReplace, zAppend, zPrepend:
		L := lens[rt.Choice("len", len(lens))]
		if kind == zAppend || kind == zPrepend {
			L = []int{0, 1, 2}[rt.Choice("len", 3)]
		}
		v := zzValue("v", L, int(data))
		req := common.SetRequest{Key: key, Data: append([]byte(nil), v...), Flags: flags, Exptime: ttl, Opaque: opaque}
		var err error
		var class int
		switch kind {
		case zSet:
			err, class = w.h.Set(req), ref.Set(ki, v, flags, ttl, w.now)
		case zAdd:
			err, class = w.h.Add(req), ref.Add(ki, v, flags, ttl, w.now)
		case zReplace:
			err, class = w.h.Replace(req), ref.Replace(ki, v, flags, ttl, w.now)
		case zAppend:
			err, class = w.h.Append(req), ref.Append(ki, v)
		case zPrepend:
			err, class = w.h.Prepend(req), ref.Prepend(ki, v)
		}
		rt.Assert(p+"-result-class-as-map", model.ClassOf(err) == class)
	case zDelete:
		err := w.h.Delete(common.DeleteRequest{Key: key, Opaque: opaque})
		rt.Assert(p+"-result-class-as-map", model.ClassOf(err) == ref.Delete(ki))
		w.deleted = ki + 1
	case zTouch:
		err := w.h.Touch(common.TouchRequest{Key: key, Exptime: ttl, Opaque: opaque})
		rt.Assert(p+"-result-class-as-map", model.ClassOf(err) == ref.Touch(ki, ttl, w.now))
	case zGat:
		res, err := w.h.GAT(common.GATRequest{Key: key, Exptime: ttl, Opaque: opaque})
		hit, v, fl := ref.Get(ki)
		rt.Assert(p+"-gat-no-error", err == nil)
		rt.Assert(p+"-gat-hit-iff-present", res.Miss == !hit)
		if hit && !res.Miss {
			rt.Assert(p+"-gat-value-as-map", len(res.Data) == len(v) && rt.BytesEq(res.Data, v))
			rt.Assert(p+"-gat-flags-as-map", res.Flags == fl)
		}
		rt.Assert(p+"-gat-opaque", res.Opaque == opaque)
		if hit {
			ref.Touch(ki, ttl, w.now)
		}
	case zGet:
		if nkeys > 1 {
			// a get of every key in one request; the responses are compared only after the whole
			// batch has completed (a response must not be disturbed by the reads that follow it)
			var keys [][]byte
			var opaques []uint32
			var quiets []bool
			for j := 0; j < nkeys; j++ {
				kj := (ki + j) % nkeys
				keys = append(keys, zzWithCap(w.keys[kj], 8))
				opaques = append(opaques, opaque+uint32(j))
				quiets = append(quiets, j%2 == 1)
			}
			out, errs := w.h.Get(common.GetRequest{Keys: keys, Opaques: opaques, Quiet: quiets})
			var all []common.GetResponse
			var gerr error
			for out != nil || errs != nil {
				select {
				case r, ok := <-out:
					if !ok {
						out = nil
						continue
					}
					all = append(all, r)
				case e, ok := <-errs:
					if !ok {
						errs = nil
						continue
					}
					gerr = e
				}
			}
			rt.Assert(p+"-get-no-error", gerr == nil)
			rt.Assert(p+"-get-one-response-per-key", len(all) == nkeys)
			if len(all) == nkeys {
				for j, r := range all {
					kj := (ki + j) % nkeys
					hit, v, fl := ref.Get(kj)
					rt.Assert(p+"-get-hit-iff-present", r.Miss == !hit)
					if hit && !r.Miss {
						rt.Assert(p+"-get-value-as-map", len(r.Data) == len(v) && rt.BytesEq(r.Data, v))
						rt.Assert(p+"-get-flags-as-map", r.Flags == fl)
					}
					rt.Assert(p+"-get-attribution", r.Opaque == opaques[j] && r.Quiet == quiets[j] && string(r.Key) == string(w.keys[kj]))
				}
			}
			break
		}
		res, n, err := zzGetOne(w.h, key, opaque)
		hit, v, fl := ref.Get(ki)
		rt.Assert(p+"-get-no-error", err == nil)
		rt.Assert(p+"-get-one-response", n == 1)
		rt.Assert(p+"-get-hit-iff-present", res.Miss == !hit)
		if hit && !res.Miss {
			rt.Assert(p+"-get-value-as-map", len(res.Data) == len(v) && rt.BytesEq(res.Data, v))
			rt.Assert(p+"-get-flags-as-map", res.Flags == fl)
		}
		rt.Assert(p+"-get-opaque", res.Opaque == opaque)
	}
	rt.Reach("step-done")
	rt.Assert(p+"-client-key-not-modified", len(key) == len(keyCopy) && rt.BytesEq(key, keyCopy))
	if kind == zGet && nkeys > 1 {
		w.only(p, w.keys, from)
	} else {
		w.only(p, w.keys[ki:ki+1], from)
	}
	w.check(p)
}

// ZZChunkedShrinkDelete: a value of several chunks is overwritten by a shorter one and then
// deleted; no entry derived from the key may remain readable in the backend.
func ZZChunkedShrinkDelete() {
	kl := rt.Param("keylen", 5)
	w := zzNewWorld(kl, 0, 0)
	data, _ := chunkSize(kl)
	p := int(data)
	key := zzKey(kl)
	w.keys = [][]byte{key}
	n0 := 1 + rt.Choice("chunks0", 2) + 1 // 2 or 3 chunks
	n1 := rt.Choice("chunks1", 2)         // 0 or 1 chunk
	v0 := zzValue("v0", n0*p, p)
	v1 := zzValue("v1", n1*p, p)
	e1 := w.h.Set(common.SetRequest{Key: key, Data: v0, Flags: rt.U32("flags0")})
	e2 := w.h.Set(common.SetRequest{Key: key, Data: v1, Flags: rt.U32("flags1")})
	e3 := w.h.Delete(common.DeleteRequest{Key: key})
	rt.Reach("deleted")
	rt.Assert("c04-shrink-commands-succeed", e1 == nil && e2 == nil && e3 == nil)
	res, n, err := zzGetOne(w.h, key, 0)
	rt.Assert("c04-get-after-delete-misses", err == nil && n == 1 && res.Miss)
	w.noEntry("c04", key)
}

// ZZChunkedLoss (C05): a complete value of n chunks is in the backend; an arbitrary subset of
// its entries (metadata, chunk 0..n-1) has been lost. get, get-and-touch and append return
// either the full value with its flags or a miss -- never anything else.
func ZZChunkedLoss() {
	kl := rt.Param("keylen", 5)
	w := zzNewWorld(kl, 0, 0)
	data, _ := chunkSize(kl)
	p := int(data)
	key := zzKey(kl)
	w.keys = [][]byte{key}
	maxn := rt.Param("maxchunks", 3)
	n := 1 + rt.Choice("chunks", maxn)
	short := rt.Choice("lastshort", 2) // last chunk full or 1 byte short of a border + 1
	L := n*p - short*(p-1)
	v := zzValue("v", L, p)
	fl := rt.U32("flags")
	tok := zzTok()
	zzStore(w.mc, key, v, fl, tok, 0)
	w.ref.E[0] = model.Entry{Present: true, Data: v, Flags: fl}
	lost := 0
	if rt.Choice("lost.meta", 2) == 1 {
		w.mc.Items[string(key)+"-meta"].Present = false
		lost++
	}
	for i := 0; i < n; i++ {
		if rt.Choice("lost."+zzItoa(i), 2) == 1 {
			w.mc.Items[string(key)+"-"+zzItoa(i)].Present = false
			lost++
		}
	}
	full := func(d []byte, f uint32) bool {
		return len(d) == len(v) && rt.FixBool(rt.And(rt.BytesEq(d, v), f == fl))
	}
	reader := rt.Choice("reader", 5)
	switch reader {
	case 3, 4:
		// delete / touch of a key with lost entries: an outcome, and the connection stays in sync
		var err error
		if reader == 3 {
			err = w.h.Delete(common.DeleteRequest{Key: key})
		} else {
			err = w.h.Touch(common.TouchRequest{Key: key, Exptime: 100})
		}
		rt.Reach("read-done")
		rt.Assert("c05-delete-touch-outcome-is-ok-or-not-found", err == nil || err == common.ErrKeyNotFound)
		rt.Assert("c05-delete-touch-succeeds-when-nothing-lost", lost > 0 || err == nil)
		other := zzKey(kl)
		other[0] = 'o'
		e2 := w.h.Set(common.SetRequest{Key: other, Data: []byte("xy"), Flags: 3})
		res, cnt, e3 := zzGetOne(w.h, other, 9)
		rt.Assert("c05-connection-in-sync-after-damaged-key", e2 == nil && e3 == nil && cnt == 1 && !res.Miss && string(res.Data) == "xy" && res.Flags == 3)
	case 0:
		res, cnt, err := zzGetOne(w.h, key, 7)
		rt.Reach("read-done")
		rt.Assert("c05-get-terminates-cleanly", err == nil && cnt == 1)
		rt.Assert("c05-get-full-value-or-miss", res.Miss || full(res.Data, res.Flags))
		rt.Assert("c05-get-hit-when-nothing-lost", lost > 0 || !res.Miss)
	case 1:
		res, err := w.h.GAT(common.GATRequest{Key: key, Exptime: rt.U32("ttl")})
		rt.Reach("read-done")
		rt.Assert("c05-gat-terminates-cleanly", err == nil)
		rt.Assert("c05-gat-full-value-or-miss", res.Miss || full(res.Data, res.Flags))
		rt.Assert("c05-gat-hit-when-nothing-lost", lost > 0 || !res.Miss)
	case 2:
		suffix := rt.Bytes("suffix", 1)
		err := w.h.Append(common.SetRequest{Key: key, Data: suffix})
		rt.Reach("read-done")
		if err == nil {
			// the append succeeded: what is stored now is the full old value + suffix
			d := zzDecode(w.mc, key)
			want := append(append([]byte(nil), v...), suffix...)
			rt.Assert("c05-append-built-on-full-value", d.wellFormed && d.present && len(d.data) == len(want) && rt.FixBool(rt.And(rt.BytesEq(d.data, want), d.flags == fl)))
		} else {
			rt.Assert("c05-append-fails-as-miss", err == common.ErrKeyNotFound)
			rt.Assert("c05-append-succeeds-when-nothing-lost", lost > 0)
		}
	}
	a, b := w.mc.Pending()
	rt.Assert("c05-backend-connection-drained", w.mc.Starved == 0 && a == 0 && b == 0)
}

// ZZKeyInjective: distinct client keys never share a backend entry -- for two different keys
// (arbitrary bytes, lengths 1..3) and any two suffix kinds the derived backend keys differ.
func ZZKeyInjective() {
	l1 := 1 + rt.Choice("len1", 3)
	l2 := 1 + rt.Choice("len2", 3)
	k1 := rt.Bytes("k1", l1)
	k2 := rt.Bytes("k2", l2)
	if l1 == l2 {
		rt.Assume(rt.Not(rt.BytesEq(k1, k2)))
	}
	idx := []int{-1, 0, 1, 10, 99, 100, 999} // -1: metadata
	derive := func(k []byte, which string) []byte {
		i := idx[rt.Choice(which, len(idx))]
		kk := zzWithCap(k, 8)
		if i < 0 {
			return metaKey(kk)
		}
		return chunkKey(kk, i)
	}
	d1 := derive(k1, "suffix1")
	d2 := derive(k2, "suffix2")
	rt.Reach("derived")
	rt.Assert("c04-derived-keys-of-distinct-client-keys-differ", len(d1) != len(d2) || rt.Not(rt.BytesEq(d1, d2)))
	rt.Assert("c04-derived-key-extends-client-key", len(d1) > l1 && rt.BytesEq(d1[:l1], k1))
}

// ZZChunkedMixed (C05): two sets W1 and W2 of the same key (values, flags, tokens, chunk
// counts independent) have been interleaved at backend-request granularity, or a reader runs
// while they are in progress: each backend entry (metadata, chunk i) holds W1's version, W2's
// version or nothing. get / get-and-touch / append return W1's value with W1's flags, W2's
// with W2's, or a miss -- never a mixture.
func ZZChunkedMixed() {
	kl := rt.Param("keylen", 5)
	w := zzNewWorld(kl, 0, 0)
	data, _ := chunkSize(kl)
	p := int(data)
	key := zzKey(kl)
	w.keys = [][]byte{key}
	maxn := rt.Param("maxchunks", 2)
	type wr struct {
		n    int
		v    []byte
		fl   uint32
		tok  []byte
		mc   *model.MC
	}
	mk := func(name string) *wr {
		x := &wr{n: 1 + rt.Choice(name+".chunks", maxn)}
		short := rt.Choice(name+".short", 3) // last chunk: full, one byte short, one byte long
		L := x.n * p
		switch short {
		case 1:
			L--
		case 2:
			L = (x.n-1)*p + 1
		}
		x.v = zzValue(name+".v", L, p)
		x.fl = rt.U32(name + ".flags")
		x.tok = zzTok()
		x.mc = model.NewMC(name, w.now)
		zzStore(x.mc, key, x.v, x.fl, x.tok, 0)
		return x
	}
	a, b := mk("w1"), mk("w2")
	rt.Assume(rt.Not(rt.BytesEq(a.tok, b.tok))) // A2
	pick := func(k string, label string) {
		ia, ib := a.mc.Items[k], b.mc.Items[k]
		opts := []*model.Item{nil}
		if ia != nil {
			opts = append(opts, ia)
		}
		if ib != nil {
			opts = append(opts, ib)
		}
		it := opts[rt.Choice("ver."+label, len(opts))]
		if it != nil {
			w.mc.Put(k, true, it.Data, it.Flags, 0)
		}
	}
	pick(string(key)+"-meta", "meta")
	nmax := a.n
	if b.n > nmax {
		nmax = b.n
	}
	for i := 0; i < nmax; i++ {
		pick(string(key)+"-"+zzItoa(i), zzItoa(i))
	}
	is := func(d []byte, f uint32, x *wr) bool {
		return len(d) == len(x.v) && rt.FixBool(rt.And(rt.BytesEq(d, x.v), f == x.fl))
	}
	switch rt.Choice("reader", 3) {
	case 0:
		res, cnt, err := zzGetOne(w.h, key, 7)
		rt.Reach("read-done")
		rt.Assert("c05-get-terminates-cleanly", err == nil && cnt == 1)
		rt.Assert("c05-get-returns-one-writers-value-or-miss", res.Miss || is(res.Data, res.Flags, a) || is(res.Data, res.Flags, b))
	case 1:
		res, err := w.h.GAT(common.GATRequest{Key: key, Exptime: rt.U32("ttl")})
		rt.Reach("read-done")
		rt.Assert("c05-gat-terminates-cleanly", err == nil)
		rt.Assert("c05-gat-returns-one-writers-value-or-miss", res.Miss || is(res.Data, res.Flags, a) || is(res.Data, res.Flags, b))
	case 2:
		suffix := rt.Bytes("suffix", 1)
		err := w.h.Append(common.SetRequest{Key: key, Data: suffix})
		rt.Reach("read-done")
		if err == nil {
			d := zzDecode(w.mc, key)
			okv := func(x *wr) bool {
				want := append(append([]byte(nil), x.v...), suffix...)
				return len(d.data) == len(want) && rt.FixBool(rt.And(rt.BytesEq(d.data, want), d.flags == x.fl))
			}
			rt.Assert("c05-append-built-on-one-writers-value", d.wellFormed && d.present && (okv(a) || okv(b)))
		} else {
			rt.Assert("c05-append-fails-as-miss", err == common.ErrKeyNotFound)
		}
	}
	x, y := w.mc.Pending()
	rt.Assert("c05-backend-connection-drained", w.mc.Starved == 0 && x == 0 && y == 0)
}

// ZZChunkedFault (C10, chunked backend): a multi-request exchange of the real chunked handler
// with one backend request answered with an error status, or the backend connection broken
// before / after / inside that reply. The call terminates (no read that would wait for ever,
// no crash); if the connection was not broken, it is left in sync: the next command on it is
// answered correctly; what a get returns is the stored value or a miss.
func ZZChunkedFault() {
	kl := rt.Param("keylen", 5)
	w := zzNewWorld(kl, 0, 0)
	data, _ := chunkSize(kl)
	p := int(data)
	key := zzKey(kl)
	w.keys = [][]byte{key}
	n := 1 + rt.Choice("chunks", 3)
	v := zzValue("v", n*p-3, p) // room for a 2-byte append inside the last chunk
	fl := rt.U32("flags")
	tok := zzTok()
	zzStore(w.mc, key, v, fl, tok, 0)
	statuses := []uint16{0x01, 0x02, 0x03, 0x04, 0x05, 0x81, 0x82, 0x84, 0x85, 0x86}
	w.mc.FaultAt = rt.Choice("fault.at", n+3)
	if rt.Choice("fault.late", 2) == 1 {
		// the second half of a read-modify-write exchange (append/prepend: the re-store)
		w.mc.FaultAt += n + 3
	}
	w.mc.FaultKind = 1 + rt.Choice("fault.kind", 4)
	switch w.mc.FaultKind {
	case model.FaultStatusReply:
		w.mc.FaultStatus = statuses[rt.Choice("fault.status", len(statuses))]
	case model.FaultCutReply:
		w.mc.CutAt = 1 + rt.Choice("fault.cut", 30)
	}
	is := func(d []byte, f uint32) bool {
		return len(d) == len(v) && rt.FixBool(rt.And(rt.BytesEq(d, v), f == fl))
	}
	var err error
	var nv []byte // value a faulted write was storing
	var nfl uint32
	cmd := rt.Choice("cmd", 7)
	switch cmd {
	case 0:
		var res common.GetResponse
		var cnt int
		res, cnt, err = zzGetOne(w.h, key, 7)
		rt.Assert("c10-chunked-get-one-outcome", (err != nil) != (cnt == 1))
		if err == nil && cnt == 1 {
			rt.Assert("c10-chunked-get-value-or-miss", res.Miss || is(res.Data, res.Flags))
		}
	case 1:
		var res common.GetResponse
		res, err = w.h.GAT(common.GATRequest{Key: key, Exptime: rt.U32("ttl")})
		if err == nil {
			rt.Assert("c10-chunked-gat-value-or-miss", res.Miss || is(res.Data, res.Flags))
		}
	case 2:
		err = w.h.Delete(common.DeleteRequest{Key: key})
	case 3:
		err = w.h.Touch(common.TouchRequest{Key: key, Exptime: rt.U32("ttl")})
	case 4:
		nv, nfl = zzValue("nv", 2*p, p), rt.U32("nflags")
		err = w.h.Set(common.SetRequest{Key: key, Data: append([]byte(nil), nv...), Flags: nfl})
	case 5:
		sfx := rt.Bytes("suffix", 2)
		nv, nfl = append(append([]byte(nil), v...), sfx...), fl
		err = w.h.Append(common.SetRequest{Key: key, Data: sfx})
	case 6:
		pfx := rt.Bytes("prefix", 2)
		nv, nfl = append(append([]byte(nil), pfx...), v...), fl
		err = w.h.Prepend(common.SetRequest{Key: key, Data: append([]byte(nil), pfx...)})
	}
	rt.Reach("call-returned")
	rt.Assert("c10-chunked-no-wait-for-a-reply-that-never-comes", w.mc.Starved == 0)
	if w.mc.Faulted {
		rt.Reach("fault-delivered")
		// The key is stored completely. An append/prepend whose backend exchange was hit by an
		// error status (other than "not found" / "not stored", which are passed on as they are
		// and would be the backend lying about what it holds) or by a broken connection must not come back as "no such key": the two-tier
		// orchestrators take that answer from L1 as "nothing to update in L1" and acknowledge.
		lying := w.mc.FaultKind == model.FaultStatusReply && (w.mc.FaultStatus == 0x01 || w.mc.FaultStatus == 0x05)
		if (cmd == 5 || cmd == 6) && !lying {
			rt.Assert("c10-chunked-fault-not-reported-as-missing-key", err != common.ErrKeyNotFound && err != common.ErrItemNotStored)
		}
	}
	broken := w.mc.Faulted && w.mc.FaultKind != model.FaultStatusReply
	// whatever happened, a reader on a fresh connection sees the old value, the new value (of a
	// write) or a miss -- never bytes that were not written together (C05), and is not disturbed
	// by what the faulted connection did to shared state such as the header pools (C14)
	{
		fresh := NewHandler(w.mc.NewConn("fresh"))
		res, cnt, e := zzGetOne(fresh, key, 5)
		rt.Assert("c10-chunked-other-connection-unaffected", e == nil && cnt == 1)
		if e == nil && cnt == 1 && !res.Miss {
			isNew := nv != nil && len(res.Data) == len(nv) && rt.FixBool(rt.And(rt.BytesEq(res.Data, nv), res.Flags == nfl))
			rt.Logf("read after fault: len=%d old=%d new=%d err=%v", len(res.Data), len(v), len(nv), err)
			rt.Assert("c10-chunked-read-after-fault-is-old-or-new-value", is(res.Data, res.Flags) || isNew)
		}
	}
	if !broken && (err == nil || common.IsAppError(err)) {
		// the connection stays in use (an application error becomes an error reply and the client
		// carries on): it must be in sync -- nothing pending, and the next command is answered right
		a, b := w.mc.Pending()
		rt.Assert("c10-chunked-connection-in-sync-after-fault", a == 0 && b == 0)
		w.mc.FaultAt = -1
		other := zzKey(kl)
		other[0] = 'o'
		e2 := w.h.Set(common.SetRequest{Key: other, Data: []byte("xy"), Flags: 3})
		res, cnt, e3 := zzGetOne(w.h, other, 9)
		served := e2 == nil && e3 == nil && cnt == 1 && !res.Miss && string(res.Data) == "xy" && res.Flags == 3
		// or the handler noticed that the stream is unusable and gave up on the connection (a
		// non-application error closes the client connection): contained. Wrong data, an
		// application-level error for a healthy command, or a hang are not.
		rt.Logf("follow-up: e2=%v e3=%v cnt=%d miss=%v starved=%d", e2, e3, cnt, res.Miss, w.mc.Starved)
		gaveUp := (e2 != nil && !common.IsAppError(e2)) || (e2 == nil && e3 != nil && !common.IsAppError(e3))
		rt.Assert("c10-chunked-next-commands-answered-correctly-or-connection-given-up", (served || gaveUp) && w.mc.Starved == 0)
	}
}
