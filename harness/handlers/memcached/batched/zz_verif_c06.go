package batched

// Harnesses for C06 (the batching pool returns each caller its own, correct result) and C13
// (connection loss). The pool is built from the real conn / relay / Handler types with an
// in-memory connection to the in-process memcached model in place of the unix socket; the
// real batcher, reader and recoveryMonitor goroutines run.

import (
	"bufio"
	"errors"
	"io"
	"os"
	"math/rand"
	"net"
	"sync"
	"sync/atomic"
	"time"

	"github.com/netflix/rend/common"
	"github.com/netflix/rend/handlers"
	"github.com/netflix/rend/handlers/memcached/std"
	"github.com/netflix/rend/zz_verif/model"
	"github.com/netflix/rend/zz_verif/rt"
)

// zzPipe is a net.Conn onto a model.MC connection with socket semantics: a read with nothing
// pending blocks until the backend has produced something (or the connection is gone).
type zzPipe struct {
	mu     sync.Mutex
	mc     *model.MC
	avail  chan struct{}
	closed bool
	// sockcap >= 0: socket buffers are finite -- a write returns only once the backend, which
	// stops reading requests while more than sockcap bytes of its replies are unread, has taken
	// all of it
	sockcap int
	drained chan struct{}
}

// zzSockCap is the socket-buffer bound given to new pipes (-1: unbounded).
var zzSockCap = -1

func zzNewPipe(mc *model.MC) *zzPipe {
	return &zzPipe{mc: mc, avail: make(chan struct{}, 1), sockcap: zzSockCap, drained: make(chan struct{}, 1)}
}

func (p *zzPipe) signal() {
	select {
	case p.avail <- struct{}{}:
	default:
	}
}

func (p *zzPipe) Read(b []byte) (int, error) {
	for {
		p.mu.Lock()
		if p.closed {
			p.mu.Unlock()
			return 0, io.ErrClosedPipe
		}
		pending, _ := p.mc.Pending()
		if pending > 0 || p.mc.Broken() {
			n, err := p.mc.Read(b)
			p.mu.Unlock()
			select {
			case p.drained <- struct{}{}:
			default:
			}
			return n, err
		}
		p.mu.Unlock()
		<-p.avail
	}
}

func (p *zzPipe) Write(b []byte) (int, error) {
	p.mu.Lock()
	if p.closed {
		p.mu.Unlock()
		return 0, io.ErrClosedPipe
	}
	n, err := p.mc.Write(b)
	p.mu.Unlock()
	p.signal()
	for p.sockcap >= 0 {
		p.mu.Lock()
		pending, _ := p.mc.Pending()
		done := p.closed || p.mc.Broken() || pending <= p.sockcap
		p.mu.Unlock()
		if done {
			break
		}
		<-p.drained
	}
	return n, err
}

func (p *zzPipe) Close() error {
	p.mu.Lock()
	p.closed = true
	p.mc.Close()
	p.mu.Unlock()
	p.signal()
	select {
	case p.drained <- struct{}{}:
	default:
	}
	return nil
}

type zzAddr struct{}

func (zzAddr) Network() string { return "fake" }
func (zzAddr) String() string  { return "fake" }

func (p *zzPipe) LocalAddr() net.Addr                { return zzAddr{} }
func (p *zzPipe) RemoteAddr() net.Addr               { return zzAddr{} }
func (p *zzPipe) SetDeadline(t time.Time) error      { return nil }
func (p *zzPipe) SetReadDeadline(t time.Time) error  { return nil }
func (p *zzPipe) SetWriteDeadline(t time.Time) error { return nil }

// zzConn is newConn without the dial: same fields, same goroutines.
func zzConn(mc *model.MC, id uint32, batchSize uint32) *conn {
	c := &conn{
		id:           id,
		sock:         "fake",
		readerSize:   4096,
		writerSize:   4096,
		rand:         rand.New(rand.NewSource(1)),
		batchDelay:   zzBatchDelay(),
		batchSize:    batchSize,
		maxBatchSize: new(uint32),
		avgBatchData: new(uint64),
		reqchan:      make(chan request, batchSize),
		batchchan:    make(chan batch),
		recovered:    make(chan struct{}),
		leftovers:    make(chan batch),
	}
	nc := zzNewPipe(mc)
	c.conn = nc
	c.rw = bufio.NewReadWriter(bufio.NewReaderSize(nc, 4096), bufio.NewWriterSize(nc, 4096))
	if !zzDeferStart {
		zzStart(c)
	}
	return c
}

// zzDeferStart: the two-caller harnesses queue both requests on the connection before its
// goroutines start, so that the requests are certain to travel in one batch.
var zzDeferStart bool

func zzStart(c *conn) {
	go c.recoveryMonitor()
	go c.batcher()
	go c.reader()
}

// zzTwoCallers runs a and b concurrently through h so that both requests are queued on conn c
// before its batcher starts.
func zzTwoCallers(h Handler, c *conn, a, b *zzCmd) (zzOutcome, zzOutcome) {
	var ga, gb zzOutcome
	var wg sync.WaitGroup
	wg.Add(2)
	// a's request is queued first, then b's (native goroutine start order is not FIFO)
	go func() { defer wg.Done(); ga = zzRun(h, a) }()
	for i := 0; i < 200 && len(c.reqchan) < 1; i++ {
		rt.Gosched()
	}
	go func() { defer wg.Done(); gb = zzRun(h, b) }()
	for i := 0; i < 200 && len(c.reqchan) < 2; i++ {
		rt.Gosched()
	}
	zzStart(c)
	wg.Wait() // a caller left waiting for ever shows as a deadlock here
	return ga, gb
}

// zzBatchDelay: natively long enough for two callers started together to land in one batch
// (under the symbolic executor the timer fires when nothing else can run).
func zzBatchDelay() time.Duration {
	if rt.Symbolic() {
		return 200 * time.Microsecond
	}
	return 30 * time.Millisecond
}

func zzHandler(conns []*conn) Handler {
	r := &relay{sock: "fake", conns: atomic.Value{}, addConnLock: new(sync.Mutex), opts: defaultOpts}
	r.conns.Store(conns)
	return Handler{relay: r, rand: rand.New(rand.NewSource(2))}
}

const (
	bSet = iota
	bAdd
	bReplace
	bAppend
	bPrepend
	bDelete
	bTouch
	bGat
	bGet
	bGetE
	bKinds
)

type zzOutcome struct {
	class int
	resp  []common.GetEResponse // get/gete/gat responses, in arrival order
	fatal bool
}

func zzCollectGet(out <-chan common.GetResponse, errs <-chan error) zzOutcome {
	var o zzOutcome
	for out != nil || errs != nil {
		select {
		case r, ok := <-out:
			if !ok {
				out = nil
				continue
			}
			o.resp = append(o.resp, common.GetEResponse{Key: r.Key, Data: r.Data, Flags: r.Flags, Opaque: r.Opaque, Quiet: r.Quiet, Miss: r.Miss})
		case e, ok := <-errs:
			if !ok {
				errs = nil
				continue
			}
			if e != nil {
				o.fatal = true
			}
		}
	}
	return o
}

func zzCollectGetE(out <-chan common.GetEResponse, errs <-chan error) zzOutcome {
	var o zzOutcome
	for out != nil || errs != nil {
		select {
		case r, ok := <-out:
			if !ok {
				out = nil
				continue
			}
			o.resp = append(o.resp, r)
		case e, ok := <-errs:
			if !ok {
				errs = nil
				continue
			}
			if e != nil {
				o.fatal = true
			}
		}
	}
	return o
}

type zzCmd struct {
	kind    int
	keys    [][]byte
	opaques []uint32
	quiets  []bool
	data    []byte
	flags   uint32
	ttl     uint32
}

func zzRun(h handlers.Handler, c *zzCmd) zzOutcome {
	key := func(j int) []byte { return append([]byte(nil), c.keys[j]...) }
	sr := common.SetRequest{Key: key(0), Data: append([]byte(nil), c.data...), Flags: c.flags, Exptime: c.ttl, Opaque: c.opaques[0]}
	switch c.kind {
	case bSet:
		return zzOutcome{class: model.ClassOf(h.Set(sr))}
	case bAdd:
		return zzOutcome{class: model.ClassOf(h.Add(sr))}
	case bReplace:
		return zzOutcome{class: model.ClassOf(h.Replace(sr))}
	case bAppend:
		return zzOutcome{class: model.ClassOf(h.Append(sr))}
	case bPrepend:
		return zzOutcome{class: model.ClassOf(h.Prepend(sr))}
	case bDelete:
		return zzOutcome{class: model.ClassOf(h.Delete(common.DeleteRequest{Key: key(0), Opaque: c.opaques[0]}))}
	case bTouch:
		return zzOutcome{class: model.ClassOf(h.Touch(common.TouchRequest{Key: key(0), Exptime: c.ttl, Opaque: c.opaques[0]}))}
	case bGat:
		r, err := h.GAT(common.GATRequest{Key: key(0), Exptime: c.ttl, Opaque: c.opaques[0]})
		return zzOutcome{class: model.ClassOf(err), resp: []common.GetEResponse{{Key: r.Key, Data: r.Data, Flags: r.Flags, Opaque: r.Opaque, Quiet: r.Quiet, Miss: r.Miss}}}
	}
	var keys [][]byte
	for j := range c.keys {
		keys = append(keys, key(j))
	}
	req := common.GetRequest{Keys: keys, Opaques: append([]uint32(nil), c.opaques...), Quiet: append([]bool(nil), c.quiets...)}
	if c.kind == bGet {
		out, errs := h.Get(req)
		return zzCollectGet(out, errs)
	}
	out, errs := h.GetE(req)
	return zzCollectGetE(out, errs)
}

func zzNewCmd(p string, nk, maxGetKeys int) *zzCmd {
	c := &zzCmd{kind: rt.Choice(p+"cmd", bKinds)}
	n := 1
	if c.kind == bGet || c.kind == bGetE {
		n = 1 + rt.Choice(p+"nkeys", maxGetKeys)
	}
	for j := 0; j < n; j++ {
		c.keys = append(c.keys, model.Keys[rt.Choice(p+"key", nk)])
		c.opaques = append(c.opaques, rt.U32(p+"opaque"))
		c.quiets = append(c.quiets, rt.Bool(p+"quiet"))
	}
	c.data = rt.Bytes(p+"data", 1)
	c.flags = rt.U32(p + "flags")
	c.ttl = rt.U32(p + "ttl")
	return c
}

func zzEqResp(a, b common.GetEResponse, withExp bool) bool {
	if a.Miss != b.Miss || string(a.Key) != string(b.Key) {
		return false
	}
	ok := rt.And(a.Opaque == b.Opaque, a.Quiet == b.Quiet)
	if a.Miss {
		return ok
	}
	if len(a.Data) != len(b.Data) {
		return false
	}
	ok = rt.And(ok, rt.And(rt.BytesEq(a.Data, b.Data), a.Flags == b.Flags))
	if withExp {
		ok = rt.And(ok, a.Exptime == b.Exptime)
	}
	return ok
}

// zzSameOutcome: the pool's outcome equals the direct connection's (same class, same responses
// in the same order: one connection serves the keys of one request in order).
func zzSameOutcome(p string, kind int, got, want zzOutcome) {
	rt.Assert(p+"-no-fatal-error", !got.fatal && !want.fatal)
	if kind < bGat {
		rt.Assert(p+"-same-result-class-as-direct-connection", got.class == want.class)
		return
	}
	rt.Assert(p+"-same-result-class-as-direct-connection", got.class == want.class)
	rt.Assert(p+"-one-response-per-requested-key", len(got.resp) == len(want.resp))
	if len(got.resp) != len(want.resp) {
		return
	}
	for j := range got.resp {
		rt.Assert(p+"-same-data-flags-attribution-as-direct-connection", zzEqResp(got.resp[j], want.resp[j], kind == bGetE))
	}
}

func zzStores(nk int) (*model.MC, *model.MC, int64) {
	now := rt.I64("now")
	rt.Assume(rt.And(now >= 1700000000, now < 1<<31))
	rt.ClockSet(now)
	rt.ClockFreeze(true)
	pool, direct := model.NewMC("pool", now), model.NewMC("direct", now)
	for i := 0; i < nk; i++ {
		n := "k" + string(rune('0'+i))
		present := rt.Bool(n + ".present")
		data := rt.Bytes(n+".data", 2)
		flags := rt.U32(n + ".flags")
		dl := rt.I64(n + ".deadline")
		rt.Assume(rt.Or(dl == 0, rt.And(dl > now, dl < 1<<32)))
		pool.Put(string(model.Keys[i]), present, data, flags, dl)
		direct.Put(string(model.Keys[i]), present, data, flags, dl)
	}
	return pool, direct, now
}

func zzSameStores(p string, nk int, a, b *model.MC) {
	for i := 0; i < nk; i++ {
		x, y := a.Items[string(model.Keys[i])], b.Items[string(model.Keys[i])]
		ex := model.Entry{Present: rt.And(x.Present, model.Live(x.Deadline, a.Now)), Data: x.Data, Flags: x.Flags, Deadline: x.Deadline}
		ey := model.Entry{Present: rt.And(y.Present, model.Live(y.Deadline, b.Now)), Data: y.Data, Flags: y.Flags, Deadline: y.Deadline}
		rt.Assert(p+"-backend-state-as-with-direct-connection", model.EqEntry(&ex, &ey, true))
	}
}

// ZZBatchedStep (C06): one command through the pool (one pooled connection, batch size 1 or
// 2) and the same command over a direct std connection, from equal arbitrary backend states:
// same outcome, data, flags (and remaining TTL for gete), same backend state afterwards.
func ZZBatchedStep() {
	nk := rt.Param("nk", 2)
	pool, direct, _ := zzStores(nk)
	bs := uint32(1 + rt.Choice("batchsize", 2))
	h := zzHandler([]*conn{zzConn(pool, 0, bs)})
	d := std.NewHandler(direct)
	c := zzNewCmd("", nk, rt.Param("getkeys", 2))
	got := zzRun(h, c)
	want := zzRun(d, c)
	rt.Reach("step-done")
	zzSameOutcome("c06", c.kind, got, want)
	zzSameStores("c06", nk, pool, direct)
}

// ZZBatchedTwoCallers (C06): two callers use the pool at once and their requests travel in one
// batch; each receives exactly what it would receive alone (the callers use different keys
// for writes, so the solo result is well defined).
func ZZBatchedTwoCallers() {
	nk := 3
	zzSockCap = rt.Param("sockcap", -1)
	defer func() { zzSockCap = -1 }()
	pool, direct, _ := zzStores(nk)
	zzDeferStart = true
	c := zzConn(pool, 0, 2)
	zzDeferStart = false
	h := zzHandler([]*conn{c})
	d := std.NewHandler(direct)
	a, b := zzNewCmd("a.", 2, 2), zzNewCmd("b.", 1, 1)
	// caller B works on the third key only
	for j := range b.keys {
		b.keys[j] = model.Keys[2]
	}
	ga, gb := zzTwoCallers(h, c, a, b)
	rt.Reach("both-done")
	rt.Assert("c06-both-requests-travelled-in-one-batch", atomic.LoadUint64(c.avgBatchData) == 1<<32|2)
	wa := zzRun(d, a)
	wb := zzRun(d, b)
	zzSameOutcome("c06-caller-a", a.kind, ga, wa)
	zzSameOutcome("c06-caller-b", b.kind, gb, wb)
	zzSameStores("c06", nk, pool, direct)
}

// ---- C13: loss of the pooled backend connection

// zzServe (native replay only): a unix socket in front of the model store, so that the real
// reconnect() can dial it. Under the symbolic executor net.Dial is substituted instead.
func zzServe(root *model.MC, late bool) string {
	dir, err := os.MkdirTemp("", "zzverif")
	if err != nil {
		panic(err)
	}
	path := dir + "/mc.sock"
	var ln net.Listener
	if !late {
		if ln, err = net.Listen("unix", path); err != nil {
			panic(err)
		}
	}
	go func() {
		if late {
			// the backend comes back only after the pool's first re-dial has failed
			time.Sleep(150 * time.Millisecond)
			if ln, err = net.Listen("unix", path); err != nil {
				panic(err)
			}
		}
		for {
			s, err := ln.Accept()
			if err != nil {
				return
			}
			go func(s net.Conn) {
				p := zzNewPipe(root.NewConn("reconnected"))
				go func() { io.Copy(p, s); p.Close() }()
				io.Copy(s, p)
				s.Close()
			}(s)
		}
	}()
	return path
}

// ZZBatchedConnLoss (C13): the pooled connection is cut before / after / inside the reply to a
// symbolic request index while a caller's get (1-3 keys, duplicates and mixed quiet flags
// allowed), gete, set or touch is outstanding. The caller gets exactly one outcome: either an
// error, or the complete correct answer (every requested key answered exactly once, with its own
// data) after the transparent retry on the re-established connection -- never a partial answer
// without an error. Afterwards the pool serves a further request normally.
func ZZBatchedConnLoss() {
	nk := 2
	root, direct, _ := zzStores(nk)
	first := root.NewConn("first")
	first.FaultAt = rt.Choice("fault.at", rt.Param("faultpositions", 3))
	first.FaultKind = model.FaultCloseBeforeReply + rt.Choice("fault.kind", 3)
	if first.FaultKind == model.FaultCutReply {
		first.CutAt = []int{1, 23, 24, 26, 30}[rt.Choice("fault.cut", 5)] // inside the header, at its end, inside the body
	}
	sock := "fake"
	// the backend may refuse the first re-dial (it is still down) and accept the next one
	refused := rt.Choice("dial.refused", 2)
	if rt.Symbolic() {
		rt.Subst("net.Dial", func(network, address string) (net.Conn, error) {
			if refused > 0 {
				refused--
				return nil, errors.New("dial unix: connection refused")
			}
			return zzNewPipe(root.NewConn("reconnected")), nil
		})
	} else {
		sock = zzServe(root, refused > 0)
	}
	bs := uint32(rt.Param("batchsize", 1))
	c := zzConn(first, 0, bs)
	c.sock = sock
	h := zzHandler([]*conn{c})
	d := std.NewHandler(direct)

	kinds := []int{bGet, bGetE, bSet, bTouch, bGat}
	cmd := &zzCmd{kind: kinds[rt.Choice("cmd", len(kinds))]}
	n := 1
	if cmd.kind == bGet || cmd.kind == bGetE {
		n = 1 + rt.Choice("nkeys", 3)
	}
	for j := 0; j < n; j++ {
		cmd.keys = append(cmd.keys, model.Keys[rt.Choice("key", nk)])
		// opaques: equal for all positions (text-protocol gets), so repeated keys are true duplicates; quiet flags: environment choices
		// (the retry logic branches on them)
		cmd.opaques = append(cmd.opaques, 10)
		cmd.quiets = append(cmd.quiets, rt.Choice("quiet", 2) == 1)
	}
	cmd.data, cmd.flags, cmd.ttl = rt.Bytes("data", 1), rt.U32("flags"), rt.U32("ttl")
	// bound: relative TTLs, so that a touch/set executed once before the cut and once more by the
	// transparent retry has the same visible outcome (the retry is at-least-once by design)
	rt.Assume(cmd.ttl <= model.Month)

	got := zzRun(h, cmd)
	want := zzRun(d, cmd)
	rt.Reach("call-returned")
	if first.Faulted {
		rt.Reach("connection-was-cut")
	}
	if cmd.kind == bGet || cmd.kind == bGetE {
		if !got.fatal {
			// complete and correct: the multiset of responses is the direct connection's
			rt.Assert("c13-no-partial-answer-presented-as-complete", len(got.resp) == len(want.resp))
			if len(got.resp) == len(want.resp) {
				used := make([]bool, len(want.resp))
				for _, g := range got.resp {
					found := false
					for j, w := range want.resp {
						// position matched on the concrete attributes, contents compared by the solver
						if !used[j] && string(g.Key) == string(w.Key) && g.Miss == w.Miss && rt.FixBool(rt.And(g.Opaque == w.Opaque, g.Quiet == w.Quiet)) {
							used[j], found = true, true
							rt.Assert("c13-every-response-carries-the-right-data", zzEqResp(g, w, cmd.kind == bGetE))
							break
						}
					}
					rt.Assert("c13-every-response-answers-one-of-the-callers-keys", found)
				}
			}
		} else {
			rt.Assert("c13-no-more-responses-than-keys", len(got.resp) <= len(want.resp))
		}
	} else if cmd.kind == bGat {
		// get-and-touch (relative TTL: idempotent): an error, or the direct connection's answer
		if !got.fatal && got.class != model.Fault {
			rt.Assert("c13-gat-outcome-is-result-or-error", got.class == want.class && len(got.resp) == len(want.resp))
			if got.class == want.class && len(got.resp) == len(want.resp) {
				for j := range got.resp {
					rt.Assert("c13-gat-response-carries-the-right-data", zzEqResp(got.resp[j], want.resp[j], false))
				}
			}
		}
	} else {
		rt.Assert("c13-write-outcome-is-result-or-error", got.class == want.class || got.class == model.Fault || got.class == model.NotFound+10)
	}
	// the pool serves normally afterwards
	probe := &zzCmd{kind: bGet, keys: [][]byte{model.Keys[0]}, opaques: []uint32{77}, quiets: []bool{false}}
	g2 := zzRun(h, probe)
	w2 := zzRun(d, probe)
	rt.Reach("pool-serves-again")
	zzSameOutcome("c13-after-recovery", bGet, g2, w2)
}

// ZZBatchedConnLossTwo (C13): two callers share a batch; the first one's single-key command is
// answered (possibly with a not-found / exists status), then the connection is cut before the
// second one's reply. Both callers get an outcome (nobody waits for ever), the second one an
// error or its own correct data, and the pool serves again afterwards.
func ZZBatchedConnLossTwo() {
	nk := 2
	root, direct, _ := zzStores(nk)
	first := root.NewConn("first")
	first.FaultAt = 1 + rt.Choice("fault.at", 2)
	first.FaultKind = model.FaultCloseBeforeReply + rt.Choice("fault.kind", 3)
	if first.FaultKind == model.FaultCutReply {
		first.CutAt = []int{1, 23, 24, 26}[rt.Choice("fault.cut", 4)]
	}
	sock := "fake"
	if rt.Symbolic() {
		rt.Subst("net.Dial", func(network, address string) (net.Conn, error) {
			return zzNewPipe(root.NewConn("reconnected")), nil
		})
	} else {
		sock = zzServe(root, false)
	}
	zzDeferStart = true
	c := zzConn(first, 0, 2)
	zzDeferStart = false
	c.sock = sock
	h := zzHandler([]*conn{c})
	d := std.NewHandler(direct)
	ka := []int{bDelete, bTouch, bAdd, bReplace, bGat}
	a := &zzCmd{kind: ka[rt.Choice("a.cmd", len(ka))], keys: [][]byte{model.Keys[0]}, opaques: []uint32{21}, quiets: []bool{false}, data: rt.Bytes("a.data", 1), flags: rt.U32("a.flags"), ttl: 100}
	b := &zzCmd{kind: bGet, keys: [][]byte{model.Keys[1]}, opaques: []uint32{22}, quiets: []bool{false}}
	ga, gb := zzTwoCallers(h, c, a, b)
	rt.Reach("both-callers-returned")
	if first.Faulted {
		rt.Reach("connection-was-cut")
	}
	wb := zzRun(d, b)
	if !gb.fatal {
		zzSameOutcome("c13-second-caller", bGet, gb, wb)
	}
	_ = ga
	probe := &zzCmd{kind: bGet, keys: [][]byte{model.Keys[1]}, opaques: []uint32{77}, quiets: []bool{false}}
	g2 := zzRun(h, probe)
	w2 := zzRun(d, probe)
	rt.Reach("pool-serves-again")
	zzSameOutcome("c13-after-recovery", bGet, g2, w2)
}

// ZZBatchedHold (C06): what a caller received stays its own: a value obtained through the pool
// is unchanged after the pool has served further requests over the same connection.
func ZZBatchedHold() {
	nk := 2
	pool, direct, _ := zzStores(nk)
	h := zzHandler([]*conn{zzConn(pool, 0, 1)})
	d := std.NewHandler(direct)
	first := &zzCmd{kind: []int{bGet, bGetE, bGat}[rt.Choice("first", 3)], keys: [][]byte{model.Keys[0]}, opaques: []uint32{rt.U32("opaque")}, quiets: []bool{false}, ttl: 0}
	ga := zzRun(h, first)
	wa := zzRun(d, first)
	// further traffic over the same pooled connection
	for i := 0; i < 2; i++ {
		next := &zzCmd{kind: bGet, keys: [][]byte{model.Keys[1]}, opaques: []uint32{uint32(50 + i)}, quiets: []bool{false}}
		zzRun(h, next)
	}
	rt.Reach("held")
	zzSameOutcome("c06-held-value", first.kind, ga, wa)
}

// ZZBatchedSlowConsumer (C13): a 3-key get whose consumer takes each response only when nothing
// else can move, while the pooled connection is cut after the first reply of every attempt
// (first connection and first reconnection). The retry marker must reach the get even though
// its goroutine is busy handing a response to the consumer: the outcome is an error, or all
// three keys -- never two keys and no error.
func ZZBatchedSlowConsumer() {
	nk := 2
	root, direct, _ := zzStores(nk)
	first := root.NewConn("first")
	first.FaultAt, first.FaultKind = 1, model.FaultCloseBeforeReply
	dials := 0
	sock := "fake"
	if rt.Symbolic() {
		rt.Subst("net.Dial", func(network, address string) (net.Conn, error) {
			c := root.NewConn("reconnected")
			if dials == 0 {
				c.FaultAt, c.FaultKind = 1, model.FaultCloseBeforeReply
			}
			dials++
			return zzNewPipe(c), nil
		})
	} else {
		sock = zzServeFaulty(root)
	}
	c := zzConn(first, 0, 1)
	c.sock = sock
	h := zzHandler([]*conn{c})
	d := std.NewHandler(direct)
	cmd := &zzCmd{kind: bGet, keys: [][]byte{model.Keys[0], model.Keys[1], model.Keys[0]}, opaques: []uint32{10, 11, 12}, quiets: []bool{false, false, false}}
	req := common.GetRequest{Keys: [][]byte{model.Keys[0], model.Keys[1], model.Keys[0]}, Opaques: []uint32{10, 11, 12}, Quiet: []bool{false, false, false}}
	out, errs := h.Get(req)
	var got zzOutcome
	for out != nil || errs != nil {
		rt.WaitQuiescent() // the slow consumer
		select {
		case r, ok := <-out:
			if !ok {
				out = nil
				continue
			}
			got.resp = append(got.resp, common.GetEResponse{Key: r.Key, Data: r.Data, Flags: r.Flags, Opaque: r.Opaque, Quiet: r.Quiet, Miss: r.Miss})
		case e, ok := <-errs:
			if !ok {
				errs = nil
				continue
			}
			if e != nil {
				got.fatal = true
			}
		}
	}
	want := zzRun(d, cmd)
	rt.Reach("get-ended")
	if !got.fatal {
		rt.Assert("c13-no-partial-answer-presented-as-complete", len(got.resp) == len(want.resp))
	} else {
		rt.Assert("c13-no-more-responses-than-keys", len(got.resp) <= len(want.resp))
	}
}

// zzServeFaulty (native replay): like zzServe, but the first accepted connection is closed
// after its first reply.
func zzServeFaulty(root *model.MC) string {
	dir, err := os.MkdirTemp("", "zzverif")
	if err != nil {
		panic(err)
	}
	path := dir + "/mc.sock"
	ln, err := net.Listen("unix", path)
	if err != nil {
		panic(err)
	}
	go func() {
		n := 0
		for {
			s, err := ln.Accept()
			if err != nil {
				return
			}
			mc := root.NewConn("reconnected")
			if n == 0 {
				mc.FaultAt, mc.FaultKind = 1, model.FaultCloseBeforeReply
			}
			n++
			go func(s net.Conn) {
				p := zzNewPipe(mc)
				go func() { io.Copy(p, s); p.Close() }()
				io.Copy(s, p)
				s.Close()
			}(s)
		}
	}()
	return path
}
