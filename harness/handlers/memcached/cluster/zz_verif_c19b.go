package cluster

// C19, second part: routing through the real cluster Handler. MD5 of a symbolic key is an
// uninterpreted function (A3), so the ring location is an arbitrary 32-bit value.

import (
	"net"
	"time"

	"github.com/netflix/rend/common"
	"github.com/netflix/rend/handlers/memcached/std"
	"github.com/netflix/rend/zz_verif/model"
	"github.com/netflix/rend/zz_verif/rt"
)

// zzNodeConn is a node's connection: the memcached model plus the address that labels it.
type zzNodeConn struct {
	*model.MC
	addr string
}

type zzTCPAddr string

func (a zzTCPAddr) Network() string { return "tcp" }
func (a zzTCPAddr) String() string  { return string(a) }

func (c *zzNodeConn) LocalAddr() net.Addr                { return zzTCPAddr("local") }
func (c *zzNodeConn) RemoteAddr() net.Addr               { return zzTCPAddr(c.addr) }
func (c *zzNodeConn) SetDeadline(t time.Time) error      { return nil }
func (c *zzNodeConn) SetReadDeadline(t time.Time) error  { return nil }
func (c *zzNodeConn) SetWriteDeadline(t time.Time) error { return nil }

// zzCluster builds a cluster handler (as NewHandler does, minus the dial) over one backend
// model per node, the nodes listed in the given order.
func zzCluster(stores []*model.MC, labels []string, order []int) (Handler, []*zzNodeConn) {
	nodes := make([]Node, len(order))
	buckets := make([]Bucket, len(order))
	conns := make([]*zzNodeConn, len(labels))
	for ix, j := range order {
		c := &zzNodeConn{MC: stores[j].NewConn(labels[j]), addr: labels[j]}
		conns[j] = c
		nodes[ix] = Node{std.NewHandler(c), c}
		buckets[ix] = nodes[ix]
	}
	return Handler{nodes, New(buckets), "zz"}, conns
}

func zzDrain(out <-chan common.GetResponse, errs <-chan error) {
	for out != nil || errs != nil {
		select {
		case _, ok := <-out:
			if !ok {
				out = nil
			}
		case _, ok := <-errs:
			if !ok {
				errs = nil
			}
		}
	}
}

// ZZClusterSetGet: a set and a later get of the same (symbolic) key reach the same node, also
// through a second handler built over its own connections with the nodes listed in another
// order; the value comes back; no other node sees the key.
func ZZClusterSetGet() {
	n := rt.Param("n", 3)
	labels := zzLabels(n, rt.Param("seed", 1))
	var stores []*model.MC
	for range labels {
		stores = append(stores, model.NewMC("node", 1700000000))
	}
	id := make([]int, n)
	rev := make([]int, n)
	for i := range id {
		id[i], rev[i] = i, n-1-i
	}
	h1, c1 := zzCluster(stores, labels, id)
	h2, c2 := zzCluster(stores, labels, rev)
	key := rt.Bytes("key", rt.Param("keylen", 2))
	data := rt.Bytes("data", 2)
	flags := rt.U32("flags")
	if w := rt.Param("warm", 0); w > 0 {
		// the connection that sets the key has looked other keys up before: the route of a key
		// depends on the key and the node set only, not on what the connection did earlier
		for r := 0; r < w; r++ {
			// (a concrete key: its ring location is then concrete too -- a symbolic one would
			// multiply the paths by the number of ring points)
			other := []byte("other-key-0123456789")[:rt.Param("keylen", 2)]
			other[0] = byte('a' + r)
			zzDrain(h1.Get(common.GetRequest{Keys: [][]byte{append([]byte(nil), other...)}, Opaques: []uint32{7}, Quiet: []bool{false}}))
		}
		for j := range c1 {
			c1[j].Writes = 0
		}
		rt.Reach("warmed")
	}
	err := h1.Set(common.SetRequest{Key: append([]byte(nil), key...), Data: append([]byte(nil), data...), Flags: flags})
	rt.Reach("set-done")
	rt.Assert("c19-set-succeeds", err == nil)
	wrote := -1
	for j := range c1 {
		if c1[j].Writes > 0 {
			rt.Assert("c19-set-reaches-exactly-one-node", wrote == -1)
			wrote = j
		}
	}
	rt.Assert("c19-set-reaches-a-node", wrote >= 0)
	// get through the other handler (other connection objects, nodes listed in reverse)
	out, errs := h2.Get(common.GetRequest{Keys: [][]byte{append([]byte(nil), key...)}, Opaques: []uint32{5}, Quiet: []bool{false}})
	var got common.GetResponse
	cnt := 0
	var gerr error
	for out != nil || errs != nil {
		select {
		case r, ok := <-out:
			if !ok {
				out = nil
				continue
			}
			got = r
			cnt++
		case e, ok := <-errs:
			if !ok {
				errs = nil
				continue
			}
			gerr = e
		}
	}
	rt.Reach("get-done")
	rt.Assert("c19-get-after-set-hits", gerr == nil && cnt == 1 && !got.Miss)
	if cnt == 1 && !got.Miss {
		rt.Assert("c19-get-after-set-returns-the-value", len(got.Data) == 2 && rt.And(rt.BytesEq(got.Data, data), got.Flags == flags))
	}
	for j := range c2 {
		rt.Assert("c19-get-asks-the-node-the-set-went-to", (c2[j].Writes > 0) == (j == wrote))
	}
}
