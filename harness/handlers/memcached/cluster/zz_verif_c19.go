package cluster

// Harness for C19 (cluster routing). The set-up phase (concrete, run once and snapshotted)
// builds the rings for a node-label set, its permutations and its single-node removals with
// the real Reset; the symbolic phase quantifies over every 32-bit ring location.

import (
	"fmt"

	"github.com/netflix/rend/zz_verif/rt"
)

type zzBucket struct{ label string }

func (b zzBucket) Label() string  { return b.label }
func (b zzBucket) Weight() uint32 { return 1 }

type zzWorld struct {
	labels   []string
	base     *Continuum
	perms    []*Continuum // rings built from permuted listings of the same set
	removed  []*Continuum // removed[i] = ring of the set without labels[i]
	distinct bool         // A3: ring points pairwise distinct
	owned    []int        // number of ring points per label
}

var zzW *zzWorld

func zzLabels(n, seed int) []string {
	out := make([]string, n)
	if rt.Param("long", 0) == 1 {
		// IPv6 backends, several instances per host: labels longer than 32 bytes that agree on a
		// long prefix and differ only in the last port digit
		for i := range out {
			out[i] = fmt.Sprintf("[2a02:26f0:1234:5678::a00:%d]:1121%d", 101+i/3, 1+i%3)
		}
		return out
	}
	for i := range out {
		out[i] = fmt.Sprintf("10.%d.%d.%d:11211", seed%250, (i*37+seed)%250, i+1)
	}
	return out
}

func zzRing(labels []string, order []int) *Continuum {
	b := make([]Bucket, len(order))
	for i, j := range order {
		b[i] = zzBucket{labels[j]}
	}
	return New(b)
}

func zzPerms(n, limit, seed int) [][]int {
	var res [][]int
	if n <= 4 {
		var rec func(cur []int, used int)
		rec = func(cur []int, used int) {
			if len(cur) == n {
				res = append(res, append([]int(nil), cur...))
				return
			}
			for j := 0; j < n; j++ {
				if used&(1<<uint(j)) == 0 {
					rec(append(cur, j), used|1<<uint(j))
				}
			}
		}
		rec(nil, 0)
		return res
	}
	// larger sets: reversal, rotations and seeded shuffles
	x := uint32(seed*2654435761 + 12345)
	for k := 0; k < limit; k++ {
		p := make([]int, n)
		for i := range p {
			p[i] = i
		}
		switch k {
		case 0:
			for i := range p {
				p[i] = n - 1 - i
			}
		case 1:
			for i := range p {
				p[i] = (i + 1) % n
			}
		default:
			for i := n - 1; i > 0; i-- {
				x = x*1664525 + 1013904223
				j := int(x>>8) % (i + 1)
				p[i], p[j] = p[j], p[i]
			}
		}
		res = append(res, p)
	}
	return res
}

// ZZRingSetup builds the world (concrete).
func ZZRingSetup() {
	n := rt.Param("n", 3)
	seed := rt.Param("seed", 0)
	w := &zzWorld{labels: zzLabels(n, seed), distinct: true}
	id := make([]int, n)
	for i := range id {
		id[i] = i
	}
	w.base = zzRing(w.labels, id)
	for _, p := range zzPerms(n, rt.Param("perms", 6), seed) {
		w.perms = append(w.perms, zzRing(w.labels, p))
	}
	for i := 0; i < n; i++ {
		var rest []int
		for j := 0; j < n; j++ {
			if j != i {
				rest = append(rest, j)
			}
		}
		w.removed = append(w.removed, zzRing(w.labels, rest))
	}
	w.owned = make([]int, n)
	for i, pt := range w.base.ring {
		if i > 0 && w.base.ring[i-1].point == pt.point {
			w.distinct = false
		}
		w.owned[zzIndex(w.labels, pt.bucket.Label())]++
	}
	zzW = w
}

func zzIndex(labels []string, l string) int {
	for i, x := range labels {
		if x == l {
			return i
		}
	}
	return -1
}

// zzSpec is the specification of a ring lookup: the owner of the first point at or after the
// location, wrapping around to the first point; fork-free linear scan.
func zzSpec(c *Continuum, labels []string, h uint32) int {
	n := len(c.ring)
	owner := zzIndex(labels, c.ring[0].bucket.Label()) // wrap-around default
	for i := n - 1; i >= 0; i-- {
		owner = rt.IteInt(c.ring[i].point >= h, zzIndex(labels, c.ring[i].bucket.Label()), owner)
	}
	return owner
}

// ZZRing: for every ring location, the node chosen is the specified owner, is the same under
// every listed order of the node set, and survives the removal of any other node.
func ZZRing() {
	w := zzW
	rt.Assert("c19-ring-points-distinct(A3)", w.distinct)
	for i := range w.owned {
		rt.Assert("c19-every-node-owns-a-share", w.owned[i] > 0)
	}
	h := rt.U32("h")
	got := zzIndex(w.labels, w.base.Bucket(h).Label())
	rt.Reach("lookup")
	rt.Assert("c19-lookup-is-first-point-at-or-after", got == zzSpec(w.base, w.labels, h))
	for _, p := range w.perms {
		rt.Assert("c19-order-independent", zzIndex(w.labels, p.Bucket(h).Label()) == got)
	}
	for i, r := range w.removed {
		if len(w.labels) == 1 {
			rt.Assert("c19-empty-ring-nil", r.Bucket(h) == nil)
			continue
		}
		after := zzIndex(w.labels, r.Bucket(h).Label())
		rt.Assert("c19-removed-node-not-chosen", after != i)
		if got != i {
			rt.Assert("c19-removal-reroutes-only-owned-keys", after == got)
		}
	}
}
