package inmem

// Harness for C17: the in-memory backend against the reference map, one symbolic command
// from an arbitrary map state.

import (
	"sync"

	"github.com/netflix/rend/common"
	"github.com/netflix/rend/zz_verif/model"
	"github.com/netflix/rend/zz_verif/rt"
)

func zzWorld(nk int) (*Handler, *model.Store, int64) {
	rt.ClockSet(rt.I64("now"))
	rt.ClockFreeze(true) // A1: one instant per command
	now := rt.Clock()
	rt.Assume(rt.And(now >= 1700000000, now < 1<<31))
	// the instance every connection gets (inmem.New), its map emptied in place
	hh, _ := New()
	h := hh.(*Handler)
	for k := range h.data {
		delete(h.data, k)
	}
	ref := &model.Store{Name: "ref"}
	for i := 0; i < nk; i++ {
		n := "k" + string(rune('0'+i))
		if rt.Choice(n+".inmap", 2) == 0 {
			continue
		}
		never := rt.Bool(n + ".never")
		delta := rt.I64(n + ".delta")
		// one second either side of "now" is left out: the boundary second is not part of C17
		rt.Assume(rt.And(rt.And(delta >= -100000, delta <= 100000), delta != 0))
		exp := rt.IteU32(never, 0, uint32(now+delta))
		data := rt.Bytes(n+".data", rt.Param("len0", 1))
		flags := rt.U32(n + ".flags")
		h.data[string(model.Keys[i])] = entry{exptime: exp, flags: flags, data: append([]byte(nil), data...)}
		e := &ref.E[i]
		e.Deadline = rt.IteI64(never, 0, now+delta)
		e.Present = model.Live(e.Deadline, now)
		e.Data = append([]byte(nil), data...)
		e.Flags = flags
	}
	return h, ref, now
}

// zzReadable reports what the handler would serve for key i now.
func zzReadable(h *Handler, i int) (bool, entry) {
	e, ok := h.data[string(model.Keys[i])]
	if !ok {
		return false, e
	}
	return !e.isExpired(), e
}

func zzSame(h *Handler, ref *model.Store, nk int, p string) {
	for i := 0; i < nk; i++ {
		ok, e := zzReadable(h, i)
		r := &ref.E[i]
		same := false
		if len(e.data) == len(r.Data) {
			same = rt.And(rt.BytesEq(e.data, r.Data), e.flags == r.Flags)
		}
		rt.Assert(p+"-state-presence", ok == r.Present)
		rt.Assert(p+"-state-value", rt.Implies(rt.And(ok, r.Present), same))
		rt.Assert(p+"-state-expiry", rt.Implies(rt.And(ok, r.Present), int64(e.exptime) == r.Deadline))
	}
}

const (
	zSet = iota
	zAdd
	zReplace
	zAppend
	zPrepend
	zDelete
	zTouch
	zGat
	zGet
	zGetE
	zKinds
)

// ZZStep: one symbolic command.
func ZZStep() {
	nk := rt.Param("nk", 2)
	h, ref, now := zzWorld(nk)
	kind := rt.Choice("cmd", zKinds)
	k := rt.Choice("key", nk)
	key := append([]byte(nil), model.Keys[k]...)
	flags := rt.U32("flags")
	ttl := rt.U32("ttl")
	rt.Assume(ttl <= model.Month) // larger values are read as relative by this backend: documented simplification
	data := rt.Bytes("data", 1)
	sr := common.SetRequest{Key: key, Data: append([]byte(nil), data...), Flags: flags, Exptime: ttl}
	var err error
	want := -1
	switch kind {
	case zSet:
		err, want = h.Set(sr), ref.Set(k, data, flags, ttl, now)
	case zAdd:
		err, want = h.Add(sr), ref.Add(k, data, flags, ttl, now)
	case zReplace:
		err, want = h.Replace(sr), ref.Replace(k, data, flags, ttl, now)
	case zAppend:
		err, want = h.Append(sr), ref.Append(k, data)
	case zPrepend:
		err, want = h.Prepend(sr), ref.Prepend(k, data)
	case zDelete:
		err, want = h.Delete(common.DeleteRequest{Key: key}), ref.Delete(k)
	case zTouch:
		err, want = h.Touch(common.TouchRequest{Key: key, Exptime: ttl}), ref.Touch(k, ttl, now)
	case zGat:
		res, e := h.GAT(common.GATRequest{Key: key, Exptime: ttl})
		hit, d, f := ref.Get(k)
		rt.Assert("c17-gat-no-error", e == nil)
		rt.Assert("c17-gat-hit-iff-present", res.Miss == !hit)
		if hit && !res.Miss {
			rt.Assert("c17-gat-value", len(res.Data) == len(d) && rt.And(rt.BytesEq(res.Data, d), res.Flags == f))
			ref.Touch(k, ttl, now)
		}
	case zGet, zGetE:
		k2 := rt.Choice("key2", nk)
		req := common.GetRequest{Keys: [][]byte{key, append([]byte(nil), model.Keys[k2]...)}, Opaques: []uint32{1, 2}, Quiet: []bool{false, true}}
		ks := []int{k, k2}
		n := 0
		if kind == zGet {
			out, errs := h.Get(req)
			for r := range out {
				hit, d, f := ref.Get(ks[n])
				rt.Assert("c17-get-hit-iff-present", r.Miss == !hit)
				if hit && !r.Miss {
					rt.Assert("c17-get-value", len(r.Data) == len(d) && rt.And(rt.BytesEq(r.Data, d), r.Flags == f))
				}
				rt.Assert("c17-get-attribution", r.Opaque == req.Opaques[n] && r.Quiet == req.Quiet[n] && string(r.Key) == string(req.Keys[n]))
				n++
			}
			for e := range errs {
				rt.Assert("c17-get-no-error", e == nil)
			}
		} else {
			out, errs := h.GetE(req)
			for r := range out {
				hit, d, f := ref.Get(ks[n])
				rt.Assert("c17-get-hit-iff-present", r.Miss == !hit)
				if hit && !r.Miss {
					rt.Assert("c17-get-value", len(r.Data) == len(d) && rt.And(rt.BytesEq(r.Data, d), r.Flags == f))
				}
				n++
			}
			for e := range errs {
				rt.Assert("c17-get-no-error", e == nil)
			}
		}
		rt.Assert("c17-get-one-answer-per-key", n == 2)
	}
	rt.Reach("step-done")
	if want >= 0 {
		rt.Assert("c17-result-class", model.ClassOf(err) == want)
	}
	zzSame(h, ref, nk, "c17")
}

// ZZConcurrent: two connections (goroutines) issue one command each on the shared instance,
// every interleaving at lock granularity: the map is only touched under the right lock, and
// results and final state are those of one of the two sequential orders.
func ZZConcurrent() {
	nk := 1
	h, ref, now := zzWorld(nk)
	// every connection obtains its handler from inmem.New, like the server does
	hb0, _ := New()
	hB := hb0.(*Handler)
	rt.Assert("c17-connections-share-one-map", len(hB.data) == len(h.data))
	// lock discipline: some mutex is held (write-held for writes) at every access to the map
	rt.Guard(h.data, nil, "c17-map")
	kinds := []int{zSet, zAdd, zDelete, zGet, zAppend, zTouch, zGetE}
	type op struct {
		kind  int
		data  []byte
		flags uint32
		ttl   uint32
		class int
		hit   bool
		got   []byte
		gotf  uint32
	}
	mk := func(p string) *op {
		o := &op{kind: kinds[rt.Choice(p+"cmd", len(kinds))], data: rt.Bytes(p+"data", 1), flags: rt.U32(p + "flags"), ttl: rt.U32(p + "ttl")}
		rt.Assume(o.ttl <= model.Month)
		return o
	}
	a, b := mk("a."), mk("b.")
	key := func() []byte { return append([]byte(nil), model.Keys[0]...) }
	run := func(h *Handler, o *op) {
		sr := common.SetRequest{Key: key(), Data: append([]byte(nil), o.data...), Flags: o.flags, Exptime: o.ttl}
		switch o.kind {
		case zSet:
			o.class = model.ClassOf(h.Set(sr))
		case zAdd:
			o.class = model.ClassOf(h.Add(sr))
		case zAppend:
			o.class = model.ClassOf(h.Append(sr))
		case zDelete:
			o.class = model.ClassOf(h.Delete(common.DeleteRequest{Key: key()}))
		case zTouch:
			o.class = model.ClassOf(h.Touch(common.TouchRequest{Key: key(), Exptime: o.ttl}))
		case zGet:
			out, _ := h.Get(common.GetRequest{Keys: [][]byte{key()}, Opaques: []uint32{0}, Quiet: []bool{false}})
			for r := range out {
				o.hit, o.got, o.gotf = !r.Miss, r.Data, r.Flags
			}
		case zGetE:
			out, _ := h.GetE(common.GetRequest{Keys: [][]byte{key()}, Opaques: []uint32{0}, Quiet: []bool{false}})
			for r := range out {
				o.hit, o.got, o.gotf = !r.Miss, r.Data, r.Flags
			}
		}
	}
	// reference outcome of o applied to s
	spec := func(s *model.Store, o *op) (class int, hit bool, got []byte, gotf uint32) {
		switch o.kind {
		case zSet:
			class = s.Set(0, o.data, o.flags, o.ttl, now)
		case zAdd:
			class = s.Add(0, o.data, o.flags, o.ttl, now)
		case zAppend:
			class = s.Append(0, o.data)
		case zDelete:
			class = s.Delete(0)
		case zTouch:
			class = s.Touch(0, o.ttl, now)
		case zGet, zGetE:
			hit, got, gotf = s.Get(0)
			got = append([]byte(nil), got...)
		}
		return
	}
	var wg sync.WaitGroup
	wg.Add(2)
	go func() { defer wg.Done(); run(h, a) }()
	go func() { defer wg.Done(); run(hB, b) }()
	wg.Wait()
	rt.Reach("both-done")
	match := func(first, second *op) bool {
		s := ref.Clone("order")
		ok := true
		for _, o := range []*op{first, second} {
			class, hit, got, gotf := spec(s, o)
			if o.kind == zGet || o.kind == zGetE {
				ok = rt.And(ok, o.hit == hit)
				if hit && o.hit {
					ok = rt.And(ok, len(o.got) == len(got) && rt.And(rt.BytesEq(o.got, got), o.gotf == gotf))
				}
			} else {
				ok = rt.And(ok, o.class == class)
			}
		}
		// final state (read under the lock, like any other user of the map)
		rd, e := zzReadable(h, 0)
		r := &s.E[0]
		ok = rt.And(ok, rd == r.Present)
		if len(e.data) == len(r.Data) {
			ok = rt.And(ok, rt.Implies(rt.And(rd, r.Present), rt.And(rt.BytesEq(e.data, r.Data), rt.And(e.flags == r.Flags, int64(e.exptime) == r.Deadline))))
		} else {
			ok = rt.And(ok, rt.Not(rt.And(rd, r.Present)))
		}
		return ok
	}
	rt.Assert("c17-linearizable", rt.Or(match(a, b), match(b, a)))
}

// ZZHold: bytes handed out by a read stay what they were: a value obtained by get / gete /
// gat is compared again after later append / prepend / set / delete commands on the same key
// (the handler hands out its stored slice; a later command must not write into it).
func ZZHold() {
	h, _, _ := zzWorld(0)
	key := func() []byte { return append([]byte(nil), model.Keys[0]...) }
	v0 := rt.Bytes("v0", 2)
	h.Set(common.SetRequest{Key: key(), Data: append([]byte(nil), v0...), Flags: 1})
	// grow the value first (an append leaves spare capacity behind the stored bytes)
	sfx := rt.Bytes("suffix", 1)
	h.Append(common.SetRequest{Key: key(), Data: append([]byte(nil), sfx...)})
	want := append(append([]byte(nil), v0...), sfx...)
	var held []byte
	switch rt.Choice("reader", 3) {
	case 0:
		out, _ := h.Get(common.GetRequest{Keys: [][]byte{key()}, Opaques: []uint32{0}, Quiet: []bool{false}})
		for r := range out {
			held = r.Data
		}
	case 1:
		out, _ := h.GetE(common.GetRequest{Keys: [][]byte{key()}, Opaques: []uint32{0}, Quiet: []bool{false}})
		for r := range out {
			held = r.Data
		}
	case 2:
		r, _ := h.GAT(common.GATRequest{Key: key(), Exptime: 0})
		held = r.Data
	}
	rt.Assert("c17-read-returns-the-value", len(held) == len(want) && rt.BytesEq(held, want))
	d := rt.Bytes("d", 1)
	switch rt.Choice("later", 4) {
	case 0:
		h.Prepend(common.SetRequest{Key: key(), Data: append([]byte(nil), d...)})
	case 1:
		h.Append(common.SetRequest{Key: key(), Data: append([]byte(nil), d...)})
	case 2:
		h.Set(common.SetRequest{Key: key(), Data: append([]byte(nil), d...)})
	case 3:
		h.Delete(common.DeleteRequest{Key: key()})
	}
	rt.Reach("held")
	rt.Assert("c17-bytes-handed-out-are-not-modified-later", len(held) == len(want) && rt.BytesEq(held, want))
}

// ZZConcurrent2Keys: a multi-key get (or gete) on one connection against a writer on another,
// every interleaving at lock operations: both finish (no deadlock), the reads are each either
// before or after the write.
func ZZConcurrent2Keys() {
	h, ref, now := zzWorld(2)
	hb0, _ := New()
	hB := hb0.(*Handler)
	rt.Guard(h.data, nil, "c17-map")
	kindW := []int{zSet, zDelete, zAppend}[rt.Choice("w.cmd", 3)]
	wkey := rt.Choice("w.key", 2)
	data := rt.Bytes("w.data", 1)
	gete := rt.Choice("gete", 2) == 1
	var hits [2]bool
	var got [2][]byte
	var wg sync.WaitGroup
	wg.Add(2)
	go func() {
		defer wg.Done()
		req := common.GetRequest{Keys: [][]byte{append([]byte(nil), model.Keys[0]...), append([]byte(nil), model.Keys[1]...)}, Opaques: []uint32{0, 1}, Quiet: []bool{false, false}}
		n := 0
		if gete {
			out, _ := h.GetE(req)
			for r := range out {
				if n < 2 {
					hits[n], got[n] = !r.Miss, r.Data
				}
				n++
			}
		} else {
			out, _ := h.Get(req)
			for r := range out {
				if n < 2 {
					hits[n], got[n] = !r.Miss, r.Data
				}
				n++
			}
		}
	}()
	go func() {
		defer wg.Done()
		k := append([]byte(nil), model.Keys[wkey]...)
		switch kindW {
		case zSet:
			hB.Set(common.SetRequest{Key: k, Data: append([]byte(nil), data...)})
		case zDelete:
			hB.Delete(common.DeleteRequest{Key: k})
		case zAppend:
			hB.Append(common.SetRequest{Key: k, Data: append([]byte(nil), data...)})
		}
	}()
	wg.Wait()
	rt.Reach("both-done")
	after := ref.Clone("after")
	switch kindW {
	case zSet:
		after.Set(wkey, data, 0, 0, now)
	case zDelete:
		after.Delete(wkey)
	case zAppend:
		after.Append(wkey, data)
	}
	for i := 0; i < 2; i++ {
		is := func(s *model.Store) bool {
			hit, d, _ := s.Get(i)
			if hit != hits[i] {
				return false
			}
			if !hit {
				return true
			}
			return len(d) == len(got[i]) && rt.BytesEq(d, got[i])
		}
		rt.Assert("c17-each-read-is-before-or-after-the-write", rt.Or(is(ref), is(after)))
	}
}
