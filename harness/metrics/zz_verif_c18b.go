package metrics

// C18, second part: counters and histograms as reported (getAll*), sequentially and under
// every interleaving of an observer with the periodic reader.

import (
	"math"
	"sync"

	"github.com/netflix/rend/zz_verif/rt"
)

func zzFindInt(ms []IntMetric, name, stat string) (uint64, bool) {
	for _, m := range ms {
		if m.Name == name && m.Tgs[TagStatistic] == stat {
			return m.Val, true
		}
	}
	return 0, false
}

var zzPctNames = []string{"percentile0", "percentile5", "percentile10", "percentile15", "percentile20", "percentile25", "percentile30", "percentile35", "percentile40", "percentile45", "percentile50",
	"percentile55", "percentile60", "percentile65", "percentile70", "percentile75", "percentile80", "percentile85", "percentile90", "percentile95", "percentile100", "percentile99", "percentile99.9"}

// zzPeriod checks one reported period of histogram name against the observations vs.
func zzPeriod(ints []IntMetric, name string, vs []uint64, p string) {
	cnt, ok := zzFindInt(ints, name, "count")
	rt.Assert(p+"-count-reported", ok)
	rt.Assert(p+"-count-is-number-of-observations", cnt == uint64(len(vs)))
	if len(vs) == 0 {
		_, has := zzFindInt(ints, name, "percentile50")
		rt.Assert(p+"-empty-period-reports-no-percentiles", !has)
		return
	}
	mn, mx := vs[0], vs[0]
	for _, v := range vs[1:] {
		mn = rt.IteU64(v < mn, v, mn)
		mx = rt.IteU64(v > mx, v, mx)
	}
	for _, st := range zzPctNames {
		pv, ok := zzFindInt(ints, name, st)
		rt.Assert(p+"-percentile-reported", ok)
		rt.Assert(p+"-percentile-between-min-and-max", rt.And(mn <= pv, pv <= mx))
		one := false
		for _, v := range vs {
			one = rt.Or(one, pv == v)
		}
		rt.Assert(p+"-percentile-is-an-observation", one)
	}
	p0, _ := zzFindInt(ints, name, "percentile0")
	p100, _ := zzFindInt(ints, name, "percentile100")
	rt.Assert(p+"-min-max-exact", rt.And(p0 == mn, p100 == mx))
	kept, _ := zzFindInt(ints, name, "kept")
	rt.Assert(p+"-kept-equals-count-when-unsampled", kept == uint64(len(vs)))
}

// ZZHistSequential: a fresh unsampled histogram, two reporting periods of up to m symbolic
// observations each, read back through the functions the /metrics endpoint uses.
// zzBucketAny stands in for getBucket where the bucket arithmetic is not the subject (it is
// decided for every input by ZZBucketBound / ZZBucketMonotone): a fixed bucket index in range.
func zzBucketAny(n uint64) uint64 { return 17 }

func ZZHistSequential() {
	m := rt.Param("m", 2)
	if rt.Symbolic() {
		rt.Subst("github.com/netflix/rend/metrics.getBucket", zzBucketAny)
	}
	sampled := rt.Param("sampled", 0) == 1
	id := AddHistogram("zzseq", sampled, nil)
	name := "hist_zzseq"
	bbefore := getAllBucketHistograms()
	total := 0
	for period := 0; period < 2; period++ {
		n := rt.Choice("n"+string(rune('0'+period)), m+1)
		var vs []uint64
		for i := 0; i < n; i++ {
			var v uint64
			if sampled {
				v = uint64(10*period + i + 1) // the count does not depend on the values
			} else {
				v = rt.U64("v" + string(rune('0'+period)) + string(rune('0'+i)))
				rt.Assume(v <= 1<<63-1)
			}
			ObserveHist(id, v)
			vs = append(vs, v)
		}
		total += n
		ints, _ := getAllHistograms()
		if sampled {
			// sampled mode (every 4th observation kept): only the count is claimed
			cnt, ok := zzFindInt(ints, name, "count")
			rt.Assert("c18-sampled-count-is-number-of-observations", ok && cnt == uint64(len(vs)))
			continue
		}
		zzPeriod(ints, name, vs, "c18-hist")
	}
	rt.Reach("periods-read")
	// the bucket counters of this histogram add up to the number of observations
	bafter := getAllBucketHistograms()
	sum := uint64(0)
	for i, b := range bafter {
		if b.Name == "bhist_zzseq" {
			sum += b.Val - bbefore[i].Val
		}
	}
	rt.Assert("c18-bucket-counters-sum-to-observations", sum == uint64(total))
}

// ZZHistWrap: the ring of kept observations around its wrap-around: starting from an
// arbitrary number of kept observations near the ring size, one more observation lands in a
// slot inside the ring and the period's percentiles are still observations.
func ZZHistWrap() {
	id := AddHistogram("zzwrap", false, nil)
	h := &hists[id]
	k := rt.U64("kept")
	rt.Assume(rt.And(k >= buflen-1, k <= buflen+2))
	// the ring holds the value 7 everywhere (as if k observations of 7 had been made)
	for i := range h.dat.buf {
		h.dat.buf[i] = 7
	}
	h.dat.kept, h.dat.count, h.dat.min, h.dat.max, h.dat.total = k, k, 7, 7, 7*k
	ObserveHist(id, 7)
	rt.Reach("wrapped")
	dat := extractHist(h)
	rt.Assert("c18-wrap-count", dat.count == k+1 && dat.kept == k+1)
	p := hdatPercentiles(dat)
	for i := range p {
		rt.Assert("c18-wrap-percentile-is-an-observation", p[i] == 7)
	}
}

// ZZCounters: k symbolic increments spread over two goroutines, every interleaving at the
// atomic operations; the reported value is the sum, and the counter memory is only ever
// touched atomically by them.
func ZZCounters() {
	id := AddCounter("zzcounter", nil)
	rt.Watch(counters, nil, "c18-counters")
	k := rt.Param("k", 2)
	var amounts [2][]uint64
	sum := uint64(0)
	for g := 0; g < 2; g++ {
		for i := 0; i < k; i++ {
			a := rt.U64("amount" + string(rune('0'+g)) + string(rune('0'+i)))
			amounts[g] = append(amounts[g], a)
			sum += a
		}
	}
	var wg sync.WaitGroup
	wg.Add(2)
	for g := 0; g < 2; g++ {
		g := g
		go func() {
			defer wg.Done()
			for i, a := range amounts[g] {
				if i%2 == 0 {
					IncCounterBy(id, a)
				} else {
					for j := uint64(0); j < a&3; j++ {
						IncCounter(id)
					}
					IncCounterBy(id, a-a&3)
				}
			}
		}()
	}
	wg.Wait()
	rt.Reach("counted")
	got := uint64(0)
	for _, m := range getAllCounters() {
		if m.Name == "zzcounter" {
			got = m.Val
		}
	}
	rt.Assert("c18-counter-is-sum-of-increments", got == sum)
}

// ZZHistConcurrent: one observer (m observations) against the periodic reader, every
// interleaving at atomic and lock operations. Each of the two resulting periods is
// consistent: its count is the number of observations it contains, an empty period is
// untouched, and in a non-empty one min <= every percentile <= max and all are observations.
func ZZHistConcurrent() {
	m := rt.Param("m", 1)
	if rt.Symbolic() {
		rt.Subst("github.com/netflix/rend/metrics.getBucket", zzBucketAny)
	}
	id := AddHistogram("zzconc", false, nil)
	h := &hists[id]
	rt.Watch(&h.dat, h.lock, "c18-hist-state")
	var vs []uint64
	for i := 0; i < m; i++ {
		v := rt.U64("v" + string(rune('0'+i)))
		rt.Assume(v <= 1<<63-1)
		vs = append(vs, v)
	}
	var wg sync.WaitGroup
	wg.Add(2)
	var first hdat
	go func() {
		defer wg.Done()
		for _, v := range vs {
			ObserveHist(id, v)
		}
	}()
	go func() {
		defer wg.Done()
		first = extractHist(h)
	}()
	wg.Wait()
	second := extractHist(h)
	rt.Reach("both-periods-read")
	rt.Assert("c18-conc-counts-add-up", first.count+second.count == uint64(m))
	for pi, d := range []hdat{first, second} {
		p := "c18-conc-period" + string(rune('1'+pi))
		n := int(rt.FixU64(d.count))
		if n == 0 {
			rt.Assert(p+"-empty-period-untouched", rt.And(rt.And(d.total == 0, d.kept == 0), rt.And(d.min == math.MaxUint64, d.max == 0)))
			continue
		}
		// the period holds the first n or the last n observations (the observer is sequential)
		own := vs[:n]
		if pi == 1 {
			own = vs[m-n:]
		}
		mn, mx, tot := own[0], own[0], uint64(0)
		for _, v := range own {
			mn = rt.IteU64(v < mn, v, mn)
			mx = rt.IteU64(v > mx, v, mx)
			tot += v
		}
		rt.Assert(p+"-min-max-total-of-its-own-observations", rt.And(rt.And(d.min == mn, d.max == mx), d.total == tot))
		rt.Assert(p+"-kept", d.kept == uint64(n))
		pc := hdatPercentiles(d)
		for i := range pc {
			rt.Assert(p+"-percentile-between-min-and-max", rt.And(d.min <= pc[i], pc[i] <= d.max))
		}
	}
}
