package metrics

// Harnesses for C18 (metrics): executed symbolically by symgo, natively for replay.

import "github.com/netflix/rend/zz_verif/rt"

// clzSpec is the specification of a leading-zero count, written independently.
func clzSpec(x uint64) uint64 {
	n := uint64(64)
	for i := uint(0); i < 64; i++ {
		n = rt.IteU64(x&(1<<i) != 0, uint64(63-i), n)
	}
	return n
}

// ZZLzcnt: the bit-count routine of this build equals the specification on every input.
func ZZLzcnt() {
	x := rt.U64("x")
	got := lzcnt(x)
	rt.Reach("lzcnt")
	rt.Assert("lzcnt-eq-spec", got == clzSpec(x))
}

// ZZLzcntPortable: the portable routine (re-emitted from metrics/lzcnt.go under another name,
// because its build constraint excludes it on amd64) equals the specification, hence the
// assembly routine, on every input.
func ZZLzcntPortable() {
	x := rt.U64("x")
	got := zzLzcntPortable(x)
	rt.Reach("lzcnt")
	rt.Assert("lzcnt-portable-eq-spec", got == clzSpec(x))
	rt.Assert("lzcnt-portable-eq-asm", got == lzcnt(x))
}

// ZZBucketBound: the bucket index is in range and the bucket's upper bound is never below
// the value, for every value up to 2^63-1.
func ZZBucketBound() {
	n := rt.U64("n")
	rt.Assume(n <= 1<<63-1)
	b := getBucket(n)
	rt.Reach("bucket")
	rt.Assert("bucket-in-range", b < numAtlasBuckets)
	rt.Assert("bucket-upper-bound", uint64(bucketValues[b]) >= n)
}

// ZZBucketMonotone: successor form of monotonicity.
func ZZBucketMonotone() {
	n := rt.U64("n")
	rt.Assume(n < 1<<63-1)
	b1 := getBucket(n)
	b2 := getBucket(n + 1)
	rt.Reach("bucket2")
	rt.Assert("bucket-monotone", b1 <= b2)
}
