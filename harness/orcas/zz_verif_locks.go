package orcas

// Harness support for C03/C12, injected by overlay (nothing is committed to the repository):
// replaces the lockers of a lock-set slot by instrumented ones, so that acquire/release
// discipline is observable both under the symbolic executor and in native replays.

import "sync"

// ZZLockLog counts what happens on one lock set.
type ZZLockLog struct {
	mu       sync.Mutex
	Held     int // currently held (read or write)
	MaxHeld  int
	Acquires int
	Releases int
	Events   []ZZLockEvent
}

type ZZLockEvent struct {
	Idx     int
	Read    bool
	Acquire bool
}

type zzLocker struct {
	inner sync.Locker
	log   *ZZLockLog
	idx   int
	read  bool
}

func (l *zzLocker) Lock() {
	l.inner.Lock()
	l.log.mu.Lock()
	l.log.Held++
	if l.log.Held > l.log.MaxHeld {
		l.log.MaxHeld = l.log.Held
	}
	l.log.Acquires++
	l.log.Events = append(l.log.Events, ZZLockEvent{l.idx, l.read, true})
	l.log.mu.Unlock()
}

func (l *zzLocker) Unlock() {
	l.log.mu.Lock()
	l.log.Held--
	l.log.Releases++
	l.log.Events = append(l.log.Events, ZZLockEvent{l.idx, l.read, false})
	l.log.mu.Unlock()
	l.inner.Unlock()
}

// ZZInstrumentLocks wraps every locker of the slot. It must be called before any LockedOrca
// of that slot is constructed (the constructors copy the slices' headers, not the lockers).
func ZZInstrumentLocks(slot uint32) *ZZLockLog {
	lg := &ZZLockLog{}
	for i := range locks[slot] {
		locks[slot][i] = &zzLocker{inner: locks[slot][i], log: lg, idx: i}
		rlocks[slot][i] = &zzLocker{inner: rlocks[slot][i], log: lg, idx: i, read: true}
	}
	return lg
}

// ZZSnapshot returns (held, maxHeld, acquires, releases).
func (l *ZZLockLog) ZZSnapshot() (int, int, int, int) {
	l.mu.Lock()
	defer l.mu.Unlock()
	return l.Held, l.MaxHeld, l.Acquires, l.Releases
}

// ZZSameLockers reports whether two orcas built from these constructors share the very same
// locker objects (main port and batch port must).
func ZZSameLockers(a, b Orca) bool {
	la, ok1 := a.(*LockedOrca)
	lb, ok2 := b.(*LockedOrca)
	if !ok1 || !ok2 || len(la.locks) != len(lb.locks) {
		return false
	}
	for i := range la.locks {
		if la.locks[i] != lb.locks[i] || la.rlocks[i] != lb.rlocks[i] {
			return false
		}
	}
	return true
}

// ZZLockIndex exposes the stripe chosen for a key.
func ZZLockIndex(o Orca, key []byte) int {
	l := o.(*LockedOrca)
	lk := l.getlock(key, false)
	for i := range l.locks {
		if l.locks[i] == lk {
			return i
		}
	}
	return -1
}
