// Package rt is the harness API. Under the symbolic executor every function here is an
// intrinsic (the bodies below are not executed); compiled natively the same harness reads
// its inputs from a tape (JSON written from a solver model), which is how counterexamples
// are replayed against the real build.
package rt

import (
	"encoding/json"
	"fmt"
	"os"
	"runtime"
	"sync"
	"time"
)

type entry struct {
	Name string `json:"name"`
	W    int    `json:"w"`
	Val  uint64 `json:"val"`
}

var (
	mu       sync.Mutex
	tape     []entry
	pos      int
	params   = map[string]int64{}
	Failed   []string
	Reached  []string
	loaded   bool
	diverged bool
)

// Start loads the tape named by VERIF_TAPE (and parameters from VERIF_PARAMS, a JSON object).
func Start() {
	mu.Lock()
	defer mu.Unlock()
	loaded = true
	pos = 0
	Failed, Reached = nil, nil
	if p := os.Getenv("VERIF_TAPE"); p != "" {
		b, err := os.ReadFile(p)
		if err != nil {
			panic(err)
		}
		var f struct {
			Tape []entry `json:"tape"`
		}
		if err := json.Unmarshal(b, &f); err != nil {
			panic(err)
		}
		tape = f.Tape
	}
	if p := os.Getenv("VERIF_PARAMS"); p != "" {
		json.Unmarshal([]byte(p), &params)
	}
}

// Finish reports the outcome of a native replay on stdout.
func Finish() {
	mu.Lock()
	defer mu.Unlock()
	for _, f := range Failed {
		fmt.Printf("VERIF-ASSERT-FAIL %s\n", f)
	}
	fmt.Printf("VERIF-REPLAY-DONE failed=%d reached=%d consumed=%d/%d\n", len(Failed), len(Reached), pos, len(tape))
}

type stop struct{}

func next(name string, w int) uint64 {
	mu.Lock()
	defer mu.Unlock()
	if pos >= len(tape) {
		// beyond the tape: the solver left the value unconstrained
		return 0
	}
	e := tape[pos]
	pos++
	if e.Name != name {
		diverged = true
		fmt.Printf("VERIF-REPLAY-DIVERGED want %q got %q at %d\n", e.Name, name, pos-1)
		panic(stop{})
	}
	return e.Val
}

func Symbolic() bool         { return false }
func U8(name string) uint8   { return uint8(next(name, 8)) }
func U16(name string) uint16 { return uint16(next(name, 16)) }
func U32(name string) uint32 { return uint32(next(name, 32)) }
func U64(name string) uint64 { return next(name, 64) }
func I64(name string) int64  { return int64(next(name, 64)) }
func I32(name string) int32  { return int32(next(name, 32)) }
func Int(name string) int    { return int(next(name, 64)) }
func Bool(name string) bool  { return next(name, 0) != 0 }
func Bytes(name string, n int) []byte {
	b := make([]byte, n)
	for i := range b {
		b[i] = uint8(next(fmt.Sprintf("%s[%d]", name, i), 8))
	}
	return b
}
func IntIn(name string, lo, hi int) int {
	v := int(next(name, 64))
	if v < lo || v > hi {
		panic(fmt.Sprintf("rt.IntIn %s: tape value %d outside [%d,%d]", name, v, lo, hi))
	}
	return v
}

// Assume rejects the tape when c is false (a replayed model always satisfies its assumptions).
func Assume(c bool) {
	if !c {
		fmt.Println("VERIF-ASSUME-FALSE")
		panic(stop{})
	}
}

// Assert records a failed assertion and reports it at once: a harness that hangs or crashes
// afterwards (a lock left held makes the follow-up command block) must still show it.
func Assert(id string, c bool) {
	if !c {
		mu.Lock()
		Failed = append(Failed, id)
		mu.Unlock()
		fmt.Printf("VERIF-ASSERT-FAIL %s\n", id)
	}
}
func Fail(id, msg string) {
	mu.Lock()
	Failed = append(Failed, id+" "+msg)
	mu.Unlock()
	fmt.Printf("VERIF-ASSERT-FAIL %s %s\n", id, msg)
}
func Reach(label string) {
	mu.Lock()
	Reached = append(Reached, label)
	mu.Unlock()
}
func Choice(name string, n int) int { return int(next(name, -1)) }
func Param(name string, def int) int {
	if v, ok := params[name]; ok {
		return int(v)
	}
	return def
}
func Stop() { panic(stop{}) }

// Run executes a harness natively, absorbing rt.Stop.
func Run(f func()) {
	defer func() {
		if r := recover(); r != nil {
			if _, ok := r.(stop); ok {
				return
			}
			fmt.Printf("VERIF-PANIC %v\n", r)
			panic(r)
		}
	}()
	f()
}

func Not(a bool) bool        { return !a }
func And(a, b bool) bool     { return a && b }
func Or(a, b bool) bool      { return a || b }
func Implies(a, b bool) bool { return !a || b }
func IteU8(c bool, a, b uint8) uint8 {
	if c {
		return a
	}
	return b
}
func IteU16(c bool, a, b uint16) uint16 {
	if c {
		return a
	}
	return b
}
func IteU32(c bool, a, b uint32) uint32 {
	if c {
		return a
	}
	return b
}
func IteU64(c bool, a, b uint64) uint64 {
	if c {
		return a
	}
	return b
}
func IteI64(c bool, a, b int64) int64 {
	if c {
		return a
	}
	return b
}
func IteInt(c bool, a, b int) int {
	if c {
		return a
	}
	return b
}
func IteBool(c bool, a, b bool) bool {
	if c {
		return a
	}
	return b
}
func IteBytes(c bool, a, b []byte) []byte {
	if c {
		return a
	}
	return b
}
func BytesEq(a, b []byte) bool {
	if len(a) != len(b) {
		return false
	}
	for i := range a {
		if a[i] != b[i] {
			return false
		}
	}
	return true
}
func Fix(v int) int          { return v }
func FixU64(v uint64) uint64 { return v }
func FixBool(v bool) bool    { return v }
func Yield()                 {}
func Gosched()               { time.Sleep(time.Millisecond) }

// WaitQuiescent natively: wait until the number of goroutines has not changed for 300 ms (at
// least 200 ms, at most 5 s); harnesses use their own completion flags for anything finer.
func WaitQuiescent() int {
	time.Sleep(100 * time.Millisecond)
	last, stable := runtime.NumGoroutine(), 0
	for i := 0; i < 98 && stable < 6; i++ {
		time.Sleep(50 * time.Millisecond)
		if n := runtime.NumGoroutine(); n == last {
			stable++
		} else {
			last, stable = n, 0
		}
	}
	return -1
}
func BlockedDesc() string   { return "" }
func HeldLocks() int        { return -1 }
func HeldByMe() int         { return -1 }
func GoroutineID() int      { return -1 }
func LiveGoroutines() int   { return runtime.NumGoroutine() }
func BytesLen(n int) []byte { return make([]byte, n) }

// AllocBudget / AllocBudgetOff natively: bytes allocated in between (runtime.MemStats) must
// not exceed the budget by more than a slack for the small fixed-size allocations the engine's
// log does not count (buffers of bufio, request structs).
var allocStart, allocLimit uint64
var allocOn bool

const allocSlack = 32 << 10

func AllocBudget(n uint64) {
	var m runtime.MemStats
	runtime.ReadMemStats(&m)
	allocStart, allocLimit, allocOn = m.TotalAlloc, n, true
}
func AllocBudgetOff() {
	if !allocOn {
		return
	}
	allocOn = false
	var m runtime.MemStats
	runtime.ReadMemStats(&m)
	if m.TotalAlloc-allocStart > allocLimit+allocSlack {
		Fail("alloc-budget", fmt.Sprintf("allocated %d bytes, budget %d", m.TotalAlloc-allocStart, allocLimit))
	}
}
func Subst(name string, f interface{}) {
	panic("rt.Subst is not available natively")
}
func ClockSet(sec int64)  {}
func ClockFreeze(b bool)  {}
func Clock() int64        { return time.Now().Unix() }
func RandDistinct(b bool) {}
func PoolHavoc(b bool)    {}
func Logf(format string, a ...interface{}) {
	if os.Getenv("VERIF_LOG") != "" {
		fmt.Printf("LOG "+format+"\n", a...)
	}
}
func Observe(name string, v uint64) {
	fmt.Printf("VERIF-OBSERVE %s=%d\n", name, v)
}

// ChanCap limits the capacity of a channel under the symbolic executor (no-op natively).
func ChanCap(ch interface{}, n int) {}

// Guard registers a lock discipline with the symbolic executor: map m may only be read while
// *mu is held and written while it is write-held (natively the race detector plays this role).
func Guard(m interface{}, mu interface{}, id string) {}

// Watch registers memory (pointer to struct/scalar, or slice) that goroutines other than the
// harness' main one may only access with sync/atomic operations or while write-holding *mu
// (natively the race detector plays this role).
func Watch(p interface{}, mu interface{}, id string) {}

// StackDepth is the number of frames on the calling goroutine's stack.
func StackDepth() int {
	pcs := make([]uintptr, 8192)
	return runtime.Callers(0, pcs)
}
