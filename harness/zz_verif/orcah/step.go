// Package orcah holds the orchestrator harnesses (C01, C02, C09, C12): one inductive step of
// the real orcas (and LockedOrca, DefaultServer.Loop) from an arbitrary valid two-tier state
// against the single-map reference model.
package orcah

import (
	"io"

	"github.com/netflix/rend/common"
	"github.com/netflix/rend/handlers"
	"github.com/netflix/rend/orcas"
	"github.com/netflix/rend/protocol"
	"github.com/netflix/rend/server"
	"github.com/netflix/rend/zz_verif/model"
	"github.com/netflix/rend/zz_verif/rt"
)

// oneShot is a stub parser: it yields the prepared requests and then EOF, so that the real
// DefaultServer.Loop dispatches them and maps errors to replies.
type oneShot struct {
	reqs  []common.Request
	types []common.RequestType
	pos   int
}

func (p *oneShot) Parse() (common.Request, common.RequestType, uint64, error) {
	if p.pos >= len(p.reqs) {
		return nil, common.RequestUnknown, 0, io.EOF
	}
	p.pos++
	return p.reqs[p.pos-1], p.types[p.pos-1], 0, nil
}

type closer struct{ n int }

func (c *closer) Close() error { c.n++; return nil }

const (
	cmdSet = iota
	cmdAdd
	cmdReplace
	cmdAppend
	cmdPrepend
	cmdDelete
	cmdTouch
	cmdGat
	cmdGet
	nCmds
)

var cmdName = []string{"set", "add", "replace", "append", "prepend", "delete", "touch", "gat", "get"}

// orcaConfigs: 0 L1Only, 1 L1L2, 2 L1L2Batch; +3 = under Locked(single reader), +6 = Locked(multi reader)
func construct(cfg int) (orcas.OrcaConst, bool) {
	base := []orcas.OrcaConst{orcas.L1Only, orcas.L1L2, orcas.L1L2Batch}[cfg%3]
	switch cfg / 3 {
	case 1:
		oc, _ := orcas.Locked(base, false, 1)
		return oc, cfg%3 != 0
	case 2:
		oc, _ := orcas.Locked(base, true, 1)
		return oc, cfg%3 != 0
	}
	return base, cfg%3 != 0
}

// world is the two-tier state plus reference.
type world struct {
	now    int64
	m1, m2 *model.Store
	ref    *model.Store
	h1, h2 *model.Handler
	twoTier bool
	batch  bool
}

// newWorld builds an arbitrary state satisfying the representation invariant
//   Inv: every L1 entry is an L2 entry with equal bytes and flags that does not outlive it
// over nk keys, entries holding len0 data bytes.
func newWorld(twoTier bool, nk, len0 int) *world {
	w := &world{twoTier: twoTier}
	w.now = rt.I64("now")
	rt.Assume(rt.And(w.now >= 1700000000, w.now < 1<<31))
	w.m2 = &model.Store{Name: "l2"}
	w.m1 = &model.Store{Name: "l1"}
	for i := 0; i < nk; i++ {
		n := "k" + string(rune('0'+i))
		w.m2.SymbolicEntry(i, n, len0, w.now)
		if twoTier {
			e2 := &w.m2.E[i]
			e1 := &w.m1.E[i]
			e1.Present = rt.And(rt.Bool(n+".inl1"), e2.Present)
			e1.Data = append([]byte(nil), e2.Data...)
			e1.Flags = e2.Flags
			e1.Deadline = rt.I64(n + ".deadline1")
			// L1 does not outlive L2
			okNever := rt.And(e2.Deadline == 0, rt.Or(e1.Deadline == 0, rt.And(e1.Deadline > w.now, e1.Deadline < 1<<32)))
			okTimed := rt.And(e2.Deadline != 0, rt.And(e1.Deadline > w.now, e1.Deadline <= e2.Deadline))
			rt.Assume(rt.Or(okNever, okTimed))
		}
	}
	if twoTier {
		w.ref = w.m2.Clone("ref")
	} else {
		// single tier: the one store is L1
		w.m1 = w.m2
		w.m2 = &model.Store{Name: "unused"}
		w.ref = w.m1.Clone("ref")
	}
	w.h1 = model.NewHandler(w.m1, w.now)
	w.h2 = model.NewHandler(w.m2, w.now)
	return w
}

// inv asserts the representation invariant and the abstraction after a command.
func (w *world) inv(nk int, p string) {
	for i := 0; i < nk; i++ {
		if w.twoTier {
			e1, e2 := &w.m1.E[i], &w.m2.E[i]
			// L1 entry => same L2 entry
			sameLen := len(e1.Data) == len(e2.Data)
			same := false
			if sameLen {
				same = rt.And(rt.BytesEq(e1.Data, e2.Data), e1.Flags == e2.Flags)
			}
			rt.Assert(p+"-l1-subset-of-l2", rt.Implies(e1.Present, rt.And(e2.Present, same)))
			notLonger := rt.Or(e2.Deadline == 0, rt.And(e1.Deadline != 0, e1.Deadline <= e2.Deadline))
			rt.Assert("c09-l1-not-outliving-l2", rt.Implies(rt.And(e1.Present, e2.Present), notLonger))
			rt.Assert(p+"-l2-is-the-map", model.EqEntry(e2, &w.ref.E[i], false))
			rt.Assert("c09-l2-deadline", rt.Implies(e2.Present, e2.Deadline == w.ref.E[i].Deadline))
		} else {
			rt.Assert(p+"-l1-is-the-map", model.EqEntry(&w.m1.E[i], &w.ref.E[i], false))
			rt.Assert("c09-l1-deadline", rt.Implies(w.m1.E[i].Present, w.m1.E[i].Deadline == w.ref.E[i].Deadline))
		}
	}
}

// command is one symbolic client command.
type command struct {
	kind   int
	key    int
	keys   []int // get
	flags  uint32
	ttl    uint32
	opaque uint32
	quiet  bool
	data   []byte
	opaques []uint32
	quiets  []bool
	noopEnd bool
	noopOpaque uint32
	collect *bool // when set, expect() conjoins its conditions here instead of asserting them
	refAt   []*model.Store // get only: the map state each key position is read from (per-key linearization)
}

func (c *command) ck(id string, cond bool) {
	if c.collect != nil {
		*c.collect = rt.And(*c.collect, cond)
		return
	}
	rt.Assert(id, cond)
}

func newCommand(p string, nk, dlen, maxGetKeys int) *command {
	c := &command{}
	if k := rt.Param(p+"cmd", -1); k >= 0 {
		c.kind = k
	} else {
		c.kind = rt.Choice(p+"cmd", nCmds)
	}
	// optional fixing of choices through parameters (p+"nkeys", p+"getkey<j>", p+"getquiet", p+"key")
	pick := func(name string, n int) int {
		if v := rt.Param(name, -1); v >= 0 {
			return v
		}
		return rt.Choice(name, n)
	}
	if c.kind == cmdGet {
		n := 1 + pick(p+"nkeys", maxGetKeys)
		for j := 0; j < n; j++ {
			k := rt.Param(p+"getkey"+string(rune('0'+j)), -1)
			if k < 0 {
				k = rt.Choice(p+"getkey", nk)
			}
			c.keys = append(c.keys, k)
			c.opaques = append(c.opaques, rt.U32(p+"getopaque"))
			if q := rt.Param(p+"getquiet", -1); q >= 0 {
				c.quiets = append(c.quiets, q == 1)
			} else {
				c.quiets = append(c.quiets, rt.Bool(p+"getquiet"))
			}
		}
		c.noopEnd = rt.Bool(p + "noopend")
		c.noopOpaque = rt.U32(p + "noopopaque")
		return c
	}
	c.key = pick(p+"key", nk)
	c.flags = rt.U32(p + "flags")
	c.ttl = rt.U32(p + "ttl")
	c.opaque = rt.U32(p + "opaque")
	c.quiet = rt.Bool(p + "quiet")
	c.data = rt.Bytes(p+"data", dlen)
	return c
}

func (c *command) request() (common.Request, common.RequestType) {
	key := append([]byte(nil), model.Keys[c.key]...)
	switch c.kind {
	case cmdSet, cmdAdd, cmdReplace, cmdAppend, cmdPrepend:
		t := []common.RequestType{common.RequestSet, common.RequestAdd, common.RequestReplace, common.RequestAppend, common.RequestPrepend}[c.kind]
		return common.SetRequest{Key: key, Data: append([]byte(nil), c.data...), Flags: c.flags, Exptime: c.ttl, Opaque: c.opaque, Quiet: c.quiet}, t
	case cmdDelete:
		return common.DeleteRequest{Key: key, Opaque: c.opaque, Quiet: c.quiet}, common.RequestDelete
	case cmdTouch:
		return common.TouchRequest{Key: key, Exptime: c.ttl, Opaque: c.opaque, Quiet: c.quiet}, common.RequestTouch
	case cmdGat:
		return common.GATRequest{Key: key, Exptime: c.ttl, Opaque: c.opaque, Quiet: c.quiet}, common.RequestGat
	}
	var keys [][]byte
	for _, k := range c.keys {
		keys = append(keys, append([]byte(nil), model.Keys[k]...))
	}
	return common.GetRequest{Keys: keys, Opaques: c.opaques, Quiet: c.quiets, NoopOpaque: c.noopOpaque, NoopEnd: c.noopEnd}, common.RequestGet
}

// expect applies the command to the reference map and asserts that the recorded replies are
// the ones the single map gives.
func (c *command) expect(ref *model.Store, now int64, log []model.Reply, p string) {
	switch c.kind {
	case cmdGet:
		n := len(c.keys)
		// The locking wrapper splits a multi-key get into single-key gets and calls GetEnd after
		// each with noopEnd=false, which the binary responder renders as nothing: at this
		// (responder-call) level only the final GetEnd is compared; what reaches the wire is
		// judged by the C08 harness with the real responders.
		var norm []model.Reply
		for j, r := range log {
			if r.Kind == "getend" && j != len(log)-1 {
				// must be one the binary responder renders as nothing
				c.ck(p+"-get-intermediate-terminator-silent", rt.Not(r.NoopEnd))
				continue
			}
			norm = append(norm, r)
		}
		log = norm
		c.ck(p+"-get-reply-count", len(log) == n+1)
		if len(log) != n+1 {
			return
		}
		end := log[n]
		c.ck(p+"-get-terminator-last", end.Kind == "getend")
		c.ck(p+"-get-terminator-fields", rt.And(end.Opaque == c.noopOpaque, end.NoopEnd == c.noopEnd))
		// each requested position is answered by exactly one frame; order of the value frames is free
		match := func(j int, r model.Reply) bool {
			if r.Kind != "get" || r.Key != c.keys[j] {
				return false
			}
			src := ref
			if c.refAt != nil {
				src = c.refAt[j]
			}
			hit, data, flags := src.Get(c.keys[j])
			ok := rt.And(r.Opaque == c.opaques[j], r.Quiet == c.quiets[j])
			if r.Miss {
				return rt.And(ok, !hit)
			}
			if len(r.Data) != len(data) {
				return false
			}
			return rt.And(ok, rt.And(hit, rt.And(rt.BytesEq(r.Data, data), r.Flags == flags)))
		}
		switch n {
		case 1:
			c.ck(p+"-get-values", match(0, log[0]))
		case 2:
			c.ck(p+"-get-values", rt.Or(rt.And(match(0, log[0]), match(1, log[1])), rt.And(match(0, log[1]), match(1, log[0]))))
		}
		return
	}
	var class int
	k := c.key
	switch c.kind {
	case cmdSet:
		class = ref.Set(k, c.data, c.flags, c.ttl, now)
	case cmdAdd:
		class = ref.Add(k, c.data, c.flags, c.ttl, now)
	case cmdReplace:
		class = ref.Replace(k, c.data, c.flags, c.ttl, now)
	case cmdAppend:
		class = ref.Append(k, c.data)
	case cmdPrepend:
		class = ref.Prepend(k, c.data)
	case cmdDelete:
		class = ref.Delete(k)
	case cmdTouch:
		class = ref.Touch(k, c.ttl, now)
	case cmdGat:
		hit, data, flags := ref.Get(k)
		c.ck(p+"-one-reply", len(log) == 1)
		if len(log) != 1 {
			return
		}
		r := log[0]
		c.ck(p+"-gat-kind", r.Kind == "gat")
		if r.Kind != "gat" {
			return
		}
		if r.Miss {
			c.ck(p+"-gat-miss-iff-absent", !hit)
		} else {
			c.ck(p+"-gat-hit-iff-present", hit)
			if hit {
				c.ck(p+"-gat-value", len(r.Data) == len(data) && rt.And(rt.BytesEq(r.Data, data), r.Flags == flags))
			}
		}
		c.ck(p+"-gat-opaque", r.Opaque == c.opaque)
		if hit {
			ref.Touch(k, c.ttl, now)
		}
		return
	}
	c.ck(p+"-one-reply", len(log) == 1)
	if len(log) != 1 {
		return
	}
	r := log[0]
	if class == model.OK {
		c.ck(p+"-success-reply", r.Kind == cmdName[c.kind])
		c.ck(p+"-opaque-echo", r.Opaque == c.opaque)
		if c.kind <= cmdPrepend {
			c.ck(p+"-quiet-passed", r.Quiet == c.quiet)
		}
	} else {
		c.ck(p+"-error-reply", r.Kind == "error")
		if r.Kind == "error" {
			c.ck(p+"-error-class", model.ClassOf(r.Err) == class)
			c.ck(p+"-opaque-echo", r.Opaque == c.opaque)
		}
	}
}

func run(oc orcas.OrcaConst, h1, h2 handlers.Handler, res protocol.Responder, reqs []common.Request, types []common.RequestType) []*closer {
	cl := []*closer{{}, {}, {}}
	s := server.Default([]io.Closer{cl[0], cl[1], cl[2]}, &oneShot{reqs: reqs, types: types}, oc(h1, h2, res))
	s.Loop()
	return cl
}

// ZZOrcaStep: one symbolic command from an arbitrary valid state, for the orca configuration
// selected by parameter "orca" (or every one, as a choice): replies = single map, Inv and
// abstraction re-established.
func ZZOrcaStep() {
	nk := rt.Param("nk", 2)
	len0 := rt.Param("len0", 2)
	dlen := rt.Param("dlen", 1)
	var cfg int
	if p := rt.Param("orca", -1); p >= 0 {
		cfg = p
	} else {
		cfg = rt.Choice("orca", rt.Param("norca", 9))
	}
	oc, twoTier := construct(cfg)
	w := newWorld(twoTier, nk, len0)
	c := newCommand("", nk, dlen, rt.Param("getkeys", 2))
	req, typ := c.request()
	rec := &model.Rec{}
	var h2 handlers.Handler
	if twoTier {
		h2 = w.h2
	}
	cl := run(oc, w.h1, h2, rec, []common.Request{req}, []common.RequestType{typ})
	rt.Reach("step-done")
	c.expect(w.ref, w.now, rec.Log, "c01")
	w.inv(nk, "c02")
	// the connection ends by EOF: all three closers closed exactly once, no lock left held
	rt.Assert("c15-closed-once", cl[0].n == 1 && cl[1].n == 1 && cl[2].n == 1)
	if rt.Symbolic() {
		rt.Assert("c12-no-lock-held", rt.HeldLocks() == 0)
	}
}

// ZZNop measures the per-path fixed cost (package initialisation) of the engine.
func ZZNop() {
	rt.Choice("n", 400)
	rt.Reach("nop")
}
