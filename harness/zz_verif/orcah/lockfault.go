package orcah

import (
	"io"

	"github.com/netflix/rend/common"
	"github.com/netflix/rend/orcas"
	"github.com/netflix/rend/server"
	"github.com/netflix/rend/zz_verif/model"
	"github.com/netflix/rend/zz_verif/rt"
)

// probeParser yields one request; when asked for the next one (the connection is still
// open and the client would be waiting for its reply) it runs a probe, then ends with EOF.
type probeParser struct {
	req   common.Request
	typ   common.RequestType
	calls int
	probe func()
}

func (p *probeParser) Parse() (common.Request, common.RequestType, uint64, error) {
	p.calls++
	if p.calls == 1 {
		return p.req, p.typ, 0, nil
	}
	if p.calls == 2 && p.probe != nil {
		p.probe()
	}
	return nil, common.RequestUnknown, 0, io.EOF
}

// ZZLockFault (C12): a command under the locking wrapper whose backend call fails or panics at
// a symbolic position. Whatever happens: no key lock stays held, at most one lock is held at
// any time, the next command on the same key proceeds, and the client either has a complete
// reply or its connection has been closed.
func ZZLockFault() {
	nk := 2
	multi := rt.Choice("multireader", 2) == 1
	base := []orcas.OrcaConst{orcas.L1Only, orcas.L1L2, orcas.L1L2Batch}[rt.Choice("base", 3)]
	conc := rt.Param("concurrency", -1)
	if conc < 0 {
		conc = rt.Choice("concurrency", 2)
	}
	oc, slot := orcas.Locked(base, multi, uint8(conc))
	lg := orcas.ZZInstrumentLocks(slot)

	w := newWorld(true, nk, 1)
	c := newCommand("", nk, 1, rt.Param("getkeys", 2))
	// fault injection
	tier := rt.Choice("faulttier", 3) // L1 handler, L2 handler, the responder (writing to the client)
	at := rt.Choice("failat", rt.Param("failpositions", 3)) - 1 // -1: no fault
	kind := rt.Choice("faultkind", 3) // 0 I/O error, 1 application error (busy), 2 panic
	h := w.h1
	if tier == 1 {
		h = w.h2
	}
	rec := &model.Rec{}
	if tier == 2 {
		// the responder fails: a write error towards the client, or a panic while replying
		h = &model.Handler{FailAt: -1}
		if at >= 0 && kind != 1 {
			rec.HasFault, rec.PanicAt = true, at
			if kind == 0 {
				rec.FailErr = model.ErrIO
			}
		}
	}
	h.FailAt = at
	switch kind {
	case 0:
		h.FailErr = model.ErrIO
	case 1:
		h.FailErr = common.ErrBusy
	case 2:
		h.Panic = true
	}

	req, typ := c.request()
	cl := []*closer{{}, {}, {}}
	pp := &probeParser{req: req, typ: typ}
	pp.probe = func() {
		// the loop came back for another request: the connection is open, so the first request
		// must have been answered (terminator or error reply) -- otherwise the client waits forever
		rt.Reach("second-parse")
		n := len(rec.Log)
		answered := false
		if n > 0 {
			last := rec.Log[n-1]
			if c.kind == cmdGet {
				answered = last.Kind == "getend" || last.Kind == "error"
			} else {
				answered = true
			}
		}
		rt.Assert("c12-reply-or-close", answered)
	}
	s := server.Default([]io.Closer{cl[0], cl[1], cl[2]}, pp, oc(w.h1, w.h2, rec))
	s.Loop()
	rt.Reach("loop-returned")
	held, maxHeld, acq, rel := lg.ZZSnapshot()
	rt.Assert("c12-no-lock-held", held == 0)
	rt.Assert("c12-acquire-release-balanced", acq == rel)
	rt.Assert("c12-at-most-one-lock", maxHeld <= 1)
	rt.Assert("c12-connection-closed", cl[0].n == 1 && cl[1].n == 1 && cl[2].n == 1)

	// the next command on every key, from another connection, proceeds
	h.FailAt = -1
	h.Panic = false
	rec2 := &model.Rec{}
	o2 := oc(w.h1, w.h2, rec2)
	for k := 0; k < nk; k++ {
		o2.Set(common.SetRequest{Key: model.Keys[k], Data: []byte{1}})
	}
	rt.Reach("next-commands-done")
	rt.Assert("c12-next-command-proceeds", len(rec2.Log) == nk)
}
