package orcah

import (
	"errors"
	"io"
	"net"
	"time"

	"github.com/netflix/rend/handlers"
	"github.com/netflix/rend/handlers/memcached/chunked"
	"github.com/netflix/rend/handlers/memcached/std"
	"github.com/netflix/rend/orcas"
	"github.com/netflix/rend/protocol"
	"github.com/netflix/rend/protocol/binprot"
	"github.com/netflix/rend/protocol/textprot"
	"github.com/netflix/rend/server"
	"github.com/netflix/rend/zz_verif/model"
	"github.com/netflix/rend/zz_verif/rt"
	"github.com/netflix/rend/zz_verif/wire"
)

// ---- fake network for the real server.ListenAndServe (C15, C14)

// fconn is a client connection as the server sees it: a scripted byte stream that ends in EOF
// (the client went away) or in a read that blocks for ever (the client waits), optionally not
// delivering its first byte before gate is closed.
type fconn struct {
	name   string
	in     []byte
	pos    int
	eof    bool          // after the script: EOF; otherwise the read blocks on wait
	gone   bool          // the client has gone away: once its script is consumed, writes to it fail
	gate   chan struct{} // when non-nil, the first read blocks until it is closed
	wait   chan struct{} // closed by the harness to release a waiting client with EOF
	out    []byte
	closed int
	reads  int
}

type faddr struct{}

func (faddr) Network() string { return "fake" }
func (faddr) String() string  { return "fake" }

func (c *fconn) Read(p []byte) (int, error) {
	c.reads++
	if c.gate != nil {
		g := c.gate
		c.gate = nil
		<-g
	}
	if c.closed > 0 {
		return 0, io.ErrClosedPipe
	}
	if c.pos >= len(c.in) {
		if !c.eof && c.wait != nil {
			<-c.wait
		}
		return 0, io.EOF
	}
	n := copy(p, c.in[c.pos:])
	c.pos += n
	return n, nil
}
func (c *fconn) Write(p []byte) (int, error) {
	if c.closed > 0 {
		return 0, io.ErrClosedPipe
	}
	if c.gone && c.pos >= len(c.in) {
		return 0, errors.New("write: broken pipe (client has gone away)")
	}
	c.out = append(c.out, p...)
	return len(p), nil
}
func (c *fconn) Close() error                       { c.closed++; return nil }
func (c *fconn) LocalAddr() net.Addr                { return faddr{} }
func (c *fconn) RemoteAddr() net.Addr               { return faddr{} }
func (c *fconn) SetDeadline(t time.Time) error      { return nil }
func (c *fconn) SetReadDeadline(t time.Time) error  { return nil }
func (c *fconn) SetWriteDeadline(t time.Time) error { return nil }

// flistener hands out the prepared connections; Accept number k (k >= 1) waits for release[k]
// when that channel is set, and after the last connection it blocks for ever.
type flistener struct {
	conns    []*fconn
	release  []chan struct{}
	accepted int
	never    chan struct{}
}

func (l *flistener) Accept() (net.Conn, error) {
	k := l.accepted
	if k >= len(l.conns) {
		<-l.never
		return nil, errors.New("listener closed")
	}
	if l.release[k] != nil {
		<-l.release[k]
	}
	l.accepted++
	return l.conns[k], nil
}
func (l *flistener) Configure(c net.Conn) (net.Conn, error) { return c, nil }

// backends: every handler constructor call opens a new connection to the shared store
type backend struct {
	root    *model.MC
	conns   []*model.MC
	chunked bool // handlers are chunked.Handler instead of std.Handler
}

func (b *backend) constructor(name string) handlers.HandlerConst {
	return func() (handlers.Handler, error) {
		c := b.root.NewConn(name)
		b.conns = append(b.conns, c)
		if b.chunked {
			return chunked.NewHandler(c), nil
		}
		return std.NewHandler(c), nil
	}
}

var listenStreams = []string{
	"set a 5 0 2\r\nxy\r\nget a bb\r\n",
	"get a\r\nquit\r\nget a\r\n",
	"delete bb\r\ntouch a 10\r\n",
	"get a bb ccc a\r\n",
}

func binaryStream() []byte {
	var s []byte
	s = append(s, wire.BinIntent("s1.", wire.KSet, 1, 2).Bytes...)
	s = append(s, wire.BinIntent("s2.", wire.KGetQNoop, 1, 0).Bytes...)
	s = append(s, wire.BinIntent("s3.", wire.KDelete, 1, 0).Bytes...)
	return s
}

// listenOrca returns the orchestrator constructor and, for the locking configurations, the log
// of the instrumented lockers of its lock set.
func listenOrca(cfg int) (orcas.OrcaConst, *orcas.ZZLockLog) {
	switch cfg {
	case 0:
		return orcas.L1Only, nil
	case 1:
		return orcas.L1L2, nil
	case 2:
		oc, slot := orcas.Locked(orcas.L1L2, false, 1)
		return oc, orcas.ZZInstrumentLocks(slot)
	}
	oc, slot := orcas.Locked(orcas.L1L2Batch, true, 0)
	return oc, orcas.ZZInstrumentLocks(slot)
}

// ZZDisconnect (C15): the real ListenAndServe over a fake listener. The first client sends a
// request stream cut at an arbitrary byte offset and goes away. When nothing can run any more:
// its socket and the two backend connections opened for it are closed, no goroutine serving
// it is left, no key lock is held; then a fresh client is accepted and served on the same keys.
func ZZDisconnect() {
	wire.KeyHook = func(name string) []byte { return append([]byte(nil), model.Keys[0]...) }
	defer func() { wire.KeyHook = nil }()
	var stream []byte
	si := rt.Choice("stream", len(listenStreams)+1)
	if si < len(listenStreams) {
		stream = []byte(listenStreams[si])
	} else {
		stream = binaryStream()
	}
	cut := rt.Choice("cut", len(stream)+1)
	cfg := rt.Choice("orca", 4)
	now := int64(1700000000)
	rt.ClockSet(now)
	l1 := &backend{root: model.NewMC("l1", now)}
	l2 := &backend{root: model.NewMC("l2", now)}
	if rt.Param("chunked", 0) == 1 {
		// the chunking backend as L1 (as in rend's L1-chunked deployments); its entries start empty
		l1.chunked = true
		rt.RandDistinct(true)
	}
	l2.root.Put("a", true, []byte("old"), 7, 0)
	l2.root.Put("bb", true, []byte("b"), 1, 0)
	l2.root.Put("ccc", true, []byte("c"), 2, 0)
	l1.root.Put("bb", rt.Bool("bb.inl1"), []byte("b"), 1, 0)
	l1.root.Put("ccc", true, []byte("c"), 2, 0)
	l1.root.Put("a", rt.Bool("a.inl1"), []byte("old"), 7, 0)

	// the departed client's socket either still accepts the server's writes (they go nowhere)
	// or refuses them (broken pipe): both happen on real sockets
	c1 := &fconn{name: "c1", in: stream[:cut], eof: true, gone: rt.Choice("writes-fail", 2) == 1}
	c2 := &fconn{name: "c2", in: []byte("set a 9 0 3\r\nnew\r\nget a\r\n"), wait: make(chan struct{})}
	ln := &flistener{conns: []*fconn{c1, c2}, release: []chan struct{}{nil, make(chan struct{})}, never: make(chan struct{})}
	base := rt.LiveGoroutines()
	oc, locklog := listenOrca(cfg)
	go server.ListenAndServe(func() (server.Listener, error) { return ln, nil },
		[]protocol.Components{binprot.Components, textprot.Components}, server.Default, oc,
		l1.constructor("l1"), l2.constructor("l2"))
	rt.WaitQuiescent()
	rt.Reach("first-client-gone")
	if locklog != nil {
		held, maxHeld, _, _ := locklog.ZZSnapshot()
		rt.Assert("c15-no-key-lock-left-held", held == 0)
		rt.Assert("c15-at-most-one-key-lock-at-a-time", maxHeld <= 1)
	}
	rt.Assert("c15-client-socket-closed", c1.closed >= 1)
	rt.Assert("c15-backend-connections-opened-once-per-client", len(l1.conns) == 1 && len(l2.conns) == 1)
	if len(l1.conns) == 1 && len(l2.conns) == 1 {
		rt.Assert("c15-l1-connection-closed", l1.conns[0].Closed >= 1)
		rt.Assert("c15-l2-connection-closed", l2.conns[0].Closed >= 1)
	}
	// only the acceptor (blocked in Accept) is left besides what ran before the server started
	rt.Logf("goroutines: base=%d now=%d", base, rt.LiveGoroutines())
	rt.Assert("c15-no-goroutine-left-for-the-client", rt.LiveGoroutines() == base+1)
	if rt.Symbolic() {
		rt.Assert("c15-no-key-lock-held", rt.HeldLocks() == 0)
	}
	_, okFrames := decodeEither(c1.out)
	rt.Assert("c15-only-complete-replies-were-sent", okFrames)

	// the server keeps accepting: a fresh client operates on the same keys
	close(ln.release[1])
	rt.WaitQuiescent()
	rt.Reach("second-client-served")
	rs, ok := wire.DecodeText(c2.out)
	rt.Assert("c15-second-client-served", ok && len(rs) == 3 && rs[0].Line == "STORED" && rs[1].Value && string(rs[1].Data) == "new" && rs[1].Flags == 9 && rs[2].Line == "END")
	close(c2.wait)
	rt.WaitQuiescent()
	rt.Assert("c15-all-connections-closed-at-the-end", c2.closed >= 1 && len(l1.conns) == 2 && l1.conns[1].Closed >= 1 && l2.conns[1].Closed >= 1)
}

func decodeEither(out []byte) (int, bool) {
	if len(out) > 0 && rt.FixU64(uint64(out[0])) == 0x81 {
		fs, ok := wire.DecodeBinary(out)
		return len(fs), ok
	}
	rs, ok := wire.DecodeText(out)
	return len(rs), ok
}

// ZZLateFirstByte (C14: one handler instance per client connection): client A connects but
// sends nothing; client B connects, is served and leaves; then A sends its requests. A must be
// served over the backend connections opened for A, which B's departure must not have closed.
func ZZLateFirstByte() {
	cfg := rt.Choice("orca", 2)
	now := int64(1700000000)
	rt.ClockSet(now)
	l1 := &backend{root: model.NewMC("l1", now)}
	l2 := &backend{root: model.NewMC("l2", now)}
	va, vb := rt.Bytes("va", 2), rt.Bytes("vb", 2)
	for _, b := range append(append([]byte(nil), va...), vb...) {
		rt.Assume(rt.And(b != '\r', b != '\n'))
	}
	gate := make(chan struct{})
	a := &fconn{name: "A", in: append(append([]byte("set a 1 0 2\r\n"), va...), []byte("\r\nget a\r\n")...), gate: gate, wait: make(chan struct{})}
	b := &fconn{name: "B", in: append(append([]byte("set bb 2 0 2\r\n"), vb...), []byte("\r\nget bb\r\n")...), eof: true}
	ln := &flistener{conns: []*fconn{a, b}, release: []chan struct{}{nil, nil}, never: make(chan struct{})}
	go server.ListenAndServe(func() (server.Listener, error) { return ln, nil },
		[]protocol.Components{binprot.Components, textprot.Components}, server.Default, func() orcas.OrcaConst { oc, _ := listenOrca(cfg); return oc }(),
		l1.constructor("l1"), l2.constructor("l2"))
	rt.WaitQuiescent()
	rt.Reach("b-served")
	check := func(c *fconn, v []byte, flags uint64, id string) {
		rs, ok := wire.DecodeText(c.out)
		good := ok && len(rs) == 3 && rs[0].Line == "STORED" && rs[1].Value && rs[2].Line == "END"
		rt.Assert(id+"-served", good)
		if good {
			rt.Assert(id+"-own-value", len(rs[1].Data) == 2 && rt.And(rt.BytesEq(rs[1].Data, v), rs[1].Flags == flags))
		}
	}
	check(b, vb, 2, "c14-client-b")
	rt.Assert("c14-one-backend-connection-pair-per-client", len(l1.conns) == 2 && len(l2.conns) == 2)
	if len(l1.conns) != 2 || len(l2.conns) != 2 {
		return
	}
	rt.Assert("c14-b-used-its-own-backend-connections", l1.conns[1].Writes > 0 && l1.conns[0].Writes == 0 && l2.conns[0].Writes == 0)
	rt.Assert("c14-b-leaving-closes-only-its-own-connections", l1.conns[1].Closed >= 1 && l2.conns[1].Closed >= 1 && l1.conns[0].Closed == 0 && l2.conns[0].Closed == 0 && a.closed == 0)
	// now A speaks
	close(gate)
	rt.WaitQuiescent()
	rt.Reach("a-served")
	check(a, va, 1, "c14-client-a")
	rt.Assert("c14-a-used-its-own-backend-connections", l1.conns[0].Writes > 0)
	close(a.wait)
	rt.WaitQuiescent()
	rt.Assert("c14-a-leaving-closes-its-connections", a.closed >= 1 && l1.conns[0].Closed >= 1 && l2.conns[0].Closed >= 1)
}
