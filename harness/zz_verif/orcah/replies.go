package orcah

import (
	"bufio"
	"io"

	"github.com/netflix/rend/common"
	"github.com/netflix/rend/handlers"
	"github.com/netflix/rend/protocol"
	"github.com/netflix/rend/protocol/binprot"
	"github.com/netflix/rend/protocol/textprot"
	"github.com/netflix/rend/server"
	"github.com/netflix/rend/zz_verif/model"
	"github.com/netflix/rend/zz_verif/rt"
	"github.com/netflix/rend/zz_verif/wire"
)

// ZZReplies (C08, wire level of C01): a pipeline of requests as *bytes* on the client socket
// -> real parser -> real DefaultServer.Loop -> real orca (9 configurations) over model
// handlers holding an arbitrary valid two-tier state -> real responder -> bytes, decoded by
// the independent strict decoders and compared with what the single reference map answers:
// one complete frame per non-quiet request, opaque echoed (binary) / request order (text),
// per get one value per hit, one not-found per non-quiet binary miss and exactly one
// terminator, last; error replies leave the connection in sync for the next request.

// expected reply unit
type expUnit struct {
	kind   int // uPlain, uErr, uValue, uNoop, uVersion
	op     uint8
	status uint16
	opaque uint32
	flags  uint32
	data   []byte
	ttl    uint32
	gete   bool
	key    []byte
	anyOpq bool   // opaque not compared (reply to a request the configuration does not support)
	line   string // text: exact status line ("" = any single line starting with linePfx)
	pfx    string
}

const (
	uPlain = iota
	uErr
	uValue
	uNoop
	uVersion
)

// expGroup: units[:free] may appear in any order, the rest in order after them.
type expGroup struct {
	units []expUnit
	free  int
}

var binOp = map[common.RequestType][2]uint8{
	common.RequestSet: {0x01, 0x11}, common.RequestAdd: {0x02, 0x12}, common.RequestReplace: {0x03, 0x13},
	common.RequestAppend: {0x0e, 0x19}, common.RequestPrepend: {0x0f, 0x1a},
}

func statusOf(class int) uint16 {
	switch class {
	case model.NotFound:
		return 1
	case model.Exists:
		return 2
	}
	return 0xffff
}

// expectIntent applies the request to the reference map and returns the reply units the
// client must see. text selects the text protocol's rendering.
func expectIntent(it *wire.Intent, ref *model.Store, now int64, text, twoTier bool) expGroup {
	var g expGroup
	if it.Type == common.RequestGetE && twoTier {
		// rend's gete extension exists on the single-tier orchestrator only; elsewhere the
		// request as a whole is answered "unknown command"
		g.units = append(g.units, expUnit{kind: uErr, status: 0x81, anyOpq: true})
		return g
	}
	ki := func(j int) int { return model.KeyIndex(it.Keys[j]) }
	one := func(class int, okLine, nfLine string, op uint8) {
		u := expUnit{opaque: it.Opaques0(), op: op}
		if class == model.OK {
			if it.Quiet && !text {
				return
			}
			u.kind, u.line = uPlain, okLine
		} else {
			u.kind, u.status, u.line = uErr, statusOf(class), nfLine
		}
		g.units = append(g.units, u)
	}
	opq := func() uint8 {
		o := binOp[it.Type]
		if it.Quiet {
			return o[1]
		}
		return o[0]
	}
	switch it.Type {
	case common.RequestSet:
		one(ref.Set(ki(0), it.Data, it.Flags, it.TTL, now), "STORED", "", opq())
	case common.RequestAdd:
		one(ref.Add(ki(0), it.Data, it.Flags, it.TTL, now), "STORED", "NOT_STORED", opq())
	case common.RequestReplace:
		// memcached's text protocol answers NOT_STORED to a replace of a missing key; rend maps
		// its "key not found" class to NOT_FOUND: the class (failure, nothing stored) is compared
		one(ref.Replace(ki(0), it.Data, it.Flags, it.TTL, now), "STORED", "NOT_", opq())
	case common.RequestAppend:
		one(ref.Append(ki(0), it.Data), "STORED", "NOT_", opq())
	case common.RequestPrepend:
		one(ref.Prepend(ki(0), it.Data), "STORED", "NOT_", opq())
	case common.RequestDelete:
		one(ref.Delete(ki(0)), "DELETED", "NOT_FOUND", 0x04)
	case common.RequestTouch:
		one(ref.Touch(ki(0), it.TTL, now), "TOUCHED", "NOT_FOUND", 0x1c)
	case common.RequestGat:
		hit, data, flags := ref.Get(ki(0))
		if hit {
			g.units = append(g.units, expUnit{kind: uValue, op: 0x1d, opaque: it.Opaques0(), flags: flags, data: data})
			ref.Touch(ki(0), it.TTL, now)
		} else {
			g.units = append(g.units, expUnit{kind: uErr, status: 1, opaque: it.Opaques0()})
		}
	case common.RequestGet, common.RequestGetE:
		for j := range it.Keys {
			hit, data, flags := ref.Get(ki(j))
			var opaque uint32
			if !text {
				opaque = it.Opaques[j]
			}
			if hit {
				u := expUnit{kind: uValue, opaque: opaque, flags: flags, data: data, key: it.Keys[j]}
				if it.Type == common.RequestGetE {
					u.gete, u.ttl, u.op = true, ref.Remaining(ki(j), now), 0x40
				}
				g.units = append(g.units, u)
			} else if !text && !it.Quiets[j] {
				g.units = append(g.units, expUnit{kind: uErr, status: 1, opaque: opaque})
			}
		}
		g.free = len(g.units)
		if text {
			g.units = append(g.units, expUnit{kind: uPlain, line: "END"})
		} else if it.NoopEnd {
			g.units = append(g.units, expUnit{kind: uNoop, op: 0x0a, opaque: it.NoopOpaque})
		}
	case common.RequestNoop:
		g.units = append(g.units, expUnit{kind: uNoop, op: 0x0a, opaque: it.Opaques0(), pfx: "Yep"})
	case common.RequestVersion:
		g.units = append(g.units, expUnit{kind: uVersion, op: 0x0b, opaque: it.Opaques0(), pfx: "VERSION "})
	case common.RequestQuit:
		if !it.Quiet {
			g.units = append(g.units, expUnit{kind: uPlain, op: 0x07, opaque: it.Opaques0(), line: "Bye"})
		}
	case common.RequestUnknown:
		g.units = append(g.units, expUnit{kind: uErr, status: 0x81, opaque: it.Opaques0(), pfx: it.ErrPfx})
	}
	return g
}

func eqBytes(a, b []byte) bool { return len(a) == len(b) && rt.BytesEq(a, b) }

func be32of(b []byte) uint32 {
	return uint32(b[0])<<24 | uint32(b[1])<<16 | uint32(b[2])<<8 | uint32(b[3])
}

// binMatch: does frame f render expected unit u? (fork-free; shape facts are concrete)
func binMatch(f wire.Frame, u expUnit) bool {
	if len(f.Key) != 0 {
		return false
	}
	switch u.kind {
	case uPlain, uNoop:
		ok := f.Status == 0 && len(f.Extras) == 0 && len(f.Body) == 0
		if u.op != 0 {
			ok = ok && f.Op == u.op
		}
		return rt.And(ok, f.Opaque == u.opaque)
	case uVersion:
		return rt.And(f.Status == 0 && len(f.Extras) == 0 && len(f.Body) > 0 && f.Op == u.op, f.Opaque == u.opaque)
	case uErr:
		// error class: not-found / exists / not-stored are told apart only as far as the
		// property says "fails exactly when the map says so"
		ok := f.Status != 0 && len(f.Extras) == 0
		if u.status == 1 {
			ok = ok && (f.Status == 1 || f.Status == 5)
		} else if u.status == 2 {
			ok = ok && f.Status == 2
		}
		if u.status == 0x81 {
			ok = ok && f.Status == 0x81
		}
		if u.anyOpq {
			return ok
		}
		return rt.And(ok, f.Opaque == u.opaque)
	case uValue:
		el := 4
		if u.gete {
			el = 8
		}
		if f.Status != 0 || len(f.Extras) != el || len(f.Body) != len(u.data) {
			return false
		}
		ok := rt.And(f.Opaque == u.opaque, rt.And(be32of(f.Extras) == u.flags, rt.BytesEq(f.Body, u.data)))
		if u.gete {
			ok = rt.And(ok, be32of(f.Extras[4:]) == u.ttl)
		}
		if u.op != 0 {
			ok = rt.And(ok, f.Op == u.op)
		}
		return ok
	}
	return false
}

func textMatch(r wire.TextReply, u expUnit) bool {
	switch u.kind {
	case uValue:
		if !r.Value || len(r.Data) != len(u.data) {
			return false
		}
		return rt.And(eqBytes(r.Key, u.key), rt.And(r.Flags == uint64(u.flags), rt.BytesEq(r.Data, u.data)))
	default:
		if r.Value {
			return false
		}
		if u.line != "" && u.line != "NOT_" {
			return r.Line == u.line
		}
		p := u.pfx
		if u.line == "NOT_" {
			p = "NOT_"
		}
		return len(r.Line) >= len(p) && r.Line[:len(p)] == p
	}
}

// matchGroup: the n units of g are rendered by n consecutive reply units; the first g.free in
// any order. m(i,j) says reply i renders unit j.
func matchGroup(n, free int, m func(i, j int) bool) bool {
	ok := true
	for i := free; i < n; i++ {
		ok = rt.And(ok, m(i, i))
	}
	switch free {
	case 0:
		return ok
	case 1:
		return rt.And(ok, m(0, 0))
	case 2:
		return rt.And(ok, rt.Or(rt.And(m(0, 0), m(1, 1)), rt.And(m(0, 1), m(1, 0))))
	case 3:
		perms := [][3]int{{0, 1, 2}, {0, 2, 1}, {1, 0, 2}, {1, 2, 0}, {2, 0, 1}, {2, 1, 0}}
		any := false
		for _, p := range perms {
			any = rt.Or(any, rt.And(m(0, p[0]), rt.And(m(1, p[1]), m(2, p[2]))))
		}
		return rt.And(ok, any)
	}
	return false
}

func keyHook(prefix string, nk int) func(string) []byte {
	return func(name string) []byte {
		return append([]byte(nil), model.Keys[rt.Choice(prefix+name, nk)]...)
	}
}

func ZZReplies() {
	nk := rt.Param("nk", 2)
	text := rt.Param("text", 0) == 1
	if rt.Param("poolhavoc", 0) == 1 {
		rt.PoolHavoc(true)
	}
	npipe := rt.Param("pipeline", 2)
	if rt.Param("symkey", 0) == 1 {
		// the first client key is one arbitrary printable byte (the other keys are longer, so it
		// differs from them whatever it is): key bytes reach the reply writers
		kb := rt.U8("key0.byte")
		rt.Assume(kb > 0x20 && kb < 0x7f)
		saved := model.Keys[0]
		model.Keys[0] = []byte{kb}
		defer func() { model.Keys[0] = saved }()
	}
	var cfg int
	if p := rt.Param("orca", -1); p >= 0 {
		cfg = p
	} else {
		cfg = rt.Choice("orca", rt.Param("norca", 9))
	}
	oc, twoTier := construct(cfg)
	w := newWorld(twoTier, nk, rt.Param("len0", 2))
	if text {
		// bound (text, quick): stored flags below 10 so that each VALUE line has one rendering
		// shape; the full range is the thorough tier's (10 digit-count forks per value)
		maxf := uint32(rt.Param("maxflags", 9))
		for i := 0; i < nk; i++ {
			rt.Assume(w.ref.E[i].Flags <= maxf)
		}
	}
	wire.KeyHook = keyHook("key.", nk)
	defer func() { wire.KeyHook = nil }()

	firstKinds := binFirst
	laterKinds := binLater
	if text {
		firstKinds, laterKinds = textFirst, textLater
	}
	getfault := rt.Param("getfault", 0) == 1
	if getfault {
		// the first request is a multi-key get during which one backend call fails with an
		// application error (busy): an error reply, the connection stays; the single-key get that
		// follows must be answered exactly as usual -- values and exactly one terminator
		firstKinds, laterKinds = []int{wire.KGetQGet, wire.KGetQ2Noop}, []int{wire.KGetQNoop, wire.KGet}
		if text {
			firstKinds, laterKinds = []int{wire.TGet2, wire.TGet3}, []int{wire.TGet1}
		}
		w.h1.FailAt = rt.Choice("fault.at", 2) // a 2-key get makes at least two L1 calls: the fault always falls into the first request
		w.h1.FailErr = common.ErrBusy
	}
	var its []*wire.Intent
	var stream []byte
	for n := 0; n < npipe; n++ {
		p := string(rune('a'+n)) + "."
		kinds := laterKinds
		if n == 0 {
			kinds = firstKinds
		}
		fixed := rt.Param("kind"+string(rune('1'+n)), -1)
		var k int
		if fixed >= 0 {
			k = fixed
		} else {
			k = kinds[rt.Choice(p+"kind", len(kinds))]
		}
		var it *wire.Intent
		if text {
			it = wire.TextIntent(p, k, 1, rt.Param("dlen", 1), rt.Param("digits", 1))
		} else {
			it = wire.BinIntent(p, k, 1, rt.Param("dlen", 1))
		}
		its = append(its, it)
		stream = append(stream, it.Bytes...)
	}
	cl := &wire.Client{In: stream, EOF: true}
	rd := bufio.NewReader(cl)
	wr := bufio.NewWriter(cl)
	var parser protocol.RequestParser
	var res protocol.Responder
	if text {
		parser, res = textprot.NewTextParser(rd), textprot.NewTextResponder(wr)
	} else {
		parser, res = binprot.NewBinaryParser(rd), binprot.NewBinaryResponder(wr)
	}
	var h2 handlers.Handler
	if twoTier {
		h2 = w.h2
	}
	closers := []*wire.Closer{{}, {}}
	s := server.Default([]io.Closer{cl, closers[0], closers[1]}, parser, oc(w.h1, h2, res))
	s.Loop()
	rt.Reach("loop-returned")
	rt.Assert("c08-connection-closed-once", cl.Closed == 1 && closers[0].N == 1 && closers[1].N == 1)
	rt.Assert("c08-all-requests-consumed", cl.Consumed() == len(stream))

	if getfault {
		g := expectIntent(its[len(its)-1], w.ref, w.now, text, twoTier)
		n := len(g.units)
		if text {
			rs, ok := wire.DecodeText(cl.Out)
			rt.Assert("c08-text-replies-well-formed", ok)
			rt.Assert("c08-request-after-error-reply-fully-answered", ok && len(rs) >= n)
			if ok && len(rs) >= n {
				sub := rs[len(rs)-n:]
				rt.Assert("c08-request-after-error-reply-answered-as-usual", matchGroup(n, g.free, func(i, j int) bool { return textMatch(sub[i], g.units[j]) }))
			}
		} else {
			fs, ok := wire.DecodeBinary(cl.Out)
			rt.Assert("c08-binary-frames-well-formed", ok)
			rt.Assert("c08-request-after-error-reply-fully-answered", ok && len(fs) >= n)
			if ok && len(fs) >= n {
				sub := fs[len(fs)-n:]
				rt.Assert("c08-request-after-error-reply-answered-as-usual", matchGroup(n, g.free, func(i, j int) bool { return binMatch(sub[i], g.units[j]) }))
			}
		}
		rt.Reach("replies-checked")
		return
	}
	// expected reply units, in request order
	var groups []expGroup
	total := 0
	for _, it := range its {
		g := expectIntent(it, w.ref, w.now, text, twoTier)
		groups = append(groups, g)
		total += len(g.units)
		if it.Type == common.RequestQuit {
			break
		}
	}
	if text {
		rs, ok := wire.DecodeText(cl.Out)
		rt.Assert("c08-text-replies-well-formed", ok)
		rt.Assert("c08-text-reply-count", len(rs) == total)
		if !ok || len(rs) != total {
			return
		}
		pos := 0
		for gi, g := range groups {
			n := len(g.units)
			sub := rs[pos : pos+n]
			rt.Assert("c08-text-reply-"+string(rune('1'+gi)), matchGroup(n, g.free, func(i, j int) bool { return textMatch(sub[i], g.units[j]) }))
			pos += n
		}
	} else {
		fs, ok := wire.DecodeBinary(cl.Out)
		rt.Assert("c08-binary-frames-well-formed", ok)
		rt.Assert("c08-binary-frame-count", len(fs) == total)
		if !ok || len(fs) != total {
			return
		}
		pos := 0
		for gi, g := range groups {
			n := len(g.units)
			sub := fs[pos : pos+n]
			rt.Assert("c08-binary-reply-"+string(rune('1'+gi)), matchGroup(n, g.free, func(i, j int) bool { return binMatch(sub[i], g.units[j]) }))
			pos += n
		}
	}
	rt.Reach("replies-checked")
	w.inv(nk, "c02")
}

var binFirst = []int{wire.KSet, wire.KSetQ, wire.KAdd, wire.KAddQ, wire.KReplace, wire.KReplaceQ, wire.KAppend, wire.KAppendQ, wire.KPrepend, wire.KPrependQ,
	wire.KGet, wire.KGetQGet, wire.KGetQNoop, wire.KGetQ2Noop, wire.KGetE, wire.KGetEQNoop, wire.KGat, wire.KDelete, wire.KTouch, wire.KNoop, wire.KVersion, wire.KQuit, wire.KQuitQ}
var binLater = []int{wire.KGetQ2Noop, wire.KGetQGet, wire.KSet, wire.KDelete}
var textFirst = []int{wire.TSet, wire.TAdd, wire.TReplace, wire.TAppend, wire.TPrepend, wire.TGet1, wire.TGet2, wire.TGet3, wire.TDelete, wire.TTouch, wire.TNoop, wire.TVersion, wire.TQuit, wire.TUnknown, wire.TBadTouch}
var textLater = []int{wire.TGet2, wire.TSet, wire.TDelete}
