package orcah

import (
	"sync"

	"github.com/netflix/rend/common"
	"github.com/netflix/rend/orcas"
	"github.com/netflix/rend/zz_verif/model"
	"github.com/netflix/rend/zz_verif/rt"
)

// ZZLockedConcurrent (C03): two connections -- one on the main port (Locked(L1L2)), the other
// on the main or on the batch port (LockedWithExisting(L1L2Batch) on the same lock set) --
// issue one symbolic command each over shared L1/L2 stores. Every interleaving at lock
// operations and backend calls is explored. Afterwards the two reply logs and the final state
// must be those of one of the two sequential orders on the single reference map, and L1 must
// hold no entry that differs from L2's.
func ZZLockedConcurrent() {
	nk := rt.Param("nk", 1)
	var multi bool
	if m := rt.Param("multireader", -1); m >= 0 {
		multi = m == 1
	} else {
		multi = rt.Choice("multireader", 2) == 1
	}
	conc := uint8(rt.Param("concurrency", 0))
	ocMain, slot := orcas.Locked(orcas.L1L2, multi, conc)
	ocBatch := orcas.LockedWithExisting(orcas.L1L2Batch, slot)
	if rt.Param("nolock", 0) == 1 {
		// self-test of the exploration: without the wrapper lost updates must be found
		ocMain, ocBatch = orcas.L1L2, orcas.L1L2Batch
	}
	w := newWorld(true, nk, 1)
	bPort := rt.Choice("b.port", 2) // 0 main, 1 batch

	type conn struct {
		c   *command
		rec *model.Rec
		o   orcas.Orca
		err error
	}
	mk := func(p string, oc orcas.OrcaConst) *conn {
		x := &conn{c: newCommand(p, nk, 1, rt.Param("getkeys", 1)), rec: &model.Rec{}}
		// per-connection handler objects over the shared stores
		x.o = oc(model.NewHandler(w.m1, w.now), model.NewHandler(w.m2, w.now), x.rec)
		return x
	}
	if rt.Param("disjoint", 0) == 1 {
		// C14: two connections without any lock wrapper working on different keys
		ocMain, ocBatch = orcas.L1L2, orcas.L1L2Batch
	}
	a := mk("a.", ocMain)
	bOC := ocMain
	if bPort == 1 {
		bOC = ocBatch
	}
	b := mk("b.", bOC)
	if rt.Param("disjoint", 0) == 1 {
		if a.c.kind == cmdGet {
			a.c.keys[0] = 0
		} else {
			a.c.key = 0
		}
		if b.c.kind == cmdGet {
			b.c.keys[0] = 1
		} else {
			b.c.key = 1
		}
	}
	exec := func(x *conn) {
		req, typ := x.c.request()
		var err error
		switch typ {
		case common.RequestSet:
			err = x.o.Set(req.(common.SetRequest))
		case common.RequestAdd:
			err = x.o.Add(req.(common.SetRequest))
		case common.RequestReplace:
			err = x.o.Replace(req.(common.SetRequest))
		case common.RequestAppend:
			err = x.o.Append(req.(common.SetRequest))
		case common.RequestPrepend:
			err = x.o.Prepend(req.(common.SetRequest))
		case common.RequestDelete:
			err = x.o.Delete(req.(common.DeleteRequest))
		case common.RequestTouch:
			err = x.o.Touch(req.(common.TouchRequest))
		case common.RequestGat:
			err = x.o.Gat(req.(common.GATRequest))
		case common.RequestGet:
			err = x.o.Get(req.(common.GetRequest))
		}
		if err != nil {
			// what DefaultServer.Loop does with an application error
			x.o.Error(req, typ, err)
		}
		x.err = err
	}
	var wg sync.WaitGroup
	wg.Add(2)
	go func() { defer wg.Done(); exec(a) }()
	go func() { defer wg.Done(); exec(b) }()
	wg.Wait()
	rt.Reach("both-done")
	rt.Assert("c03-no-fatal-error", (a.err == nil || common.IsAppError(a.err)) && (b.err == nil || common.IsAppError(b.err)))

	// Linearization: every single-key command is one atomic step; a get of n keys is n atomic
	// reads in key order (the property is per key: the wrapper locks one key at a time). Both
	// reply logs and the final L2 state must be explained by one merge of the two step lists.
	steps := func(x *conn) int {
		if x.c.kind == cmdGet {
			return len(x.c.keys)
		}
		return 1
	}
	na, nb := steps(a), steps(b)
	var merges [][]bool // true = next step of a
	var gen func(pa, pb int, cur []bool)
	gen = func(pa, pb int, cur []bool) {
		if pa == na && pb == nb {
			merges = append(merges, append([]bool(nil), cur...))
			return
		}
		if pa < na {
			gen(pa+1, pb, append(cur, true))
		}
		if pb < nb {
			gen(pa, pb+1, append(cur, false))
		}
	}
	gen(0, 0, nil)
	explain := func(merge []bool) bool {
		ref := w.ref.Clone("order")
		ok := true
		pos := map[*conn]int{}
		for _, x := range []*conn{a, b} {
			x.c.refAt = nil
			if x.c.kind == cmdGet {
				x.c.refAt = make([]*model.Store, len(x.c.keys))
			}
		}
		for _, isA := range merge {
			x := b
			if isA {
				x = a
			}
			if x.c.kind == cmdGet {
				x.c.refAt[pos[x]] = ref.Clone("read")
				pos[x]++
				continue
			}
			x.c.collect = &ok
			x.c.expect(ref, w.now, x.rec.Log, "c03")
			x.c.collect = nil
		}
		for _, x := range []*conn{a, b} {
			if x.c.kind == cmdGet {
				x.c.collect = &ok
				x.c.expect(ref, w.now, x.rec.Log, "c03")
				x.c.collect = nil
				x.c.refAt = nil
			}
		}
		for i := 0; i < nk; i++ {
			ok = rt.And(ok, model.EqEntry(&w.m2.E[i], &ref.E[i], true))
		}
		return ok
	}
	lin := false
	for _, m := range merges {
		lin = rt.Or(lin, explain(m))
	}
	rt.Assert("c03-linearizable", lin)
	for i := 0; i < nk; i++ {
		e1, e2 := &w.m1.E[i], &w.m2.E[i]
		same := false
		if len(e1.Data) == len(e2.Data) {
			same = rt.And(rt.BytesEq(e1.Data, e2.Data), e1.Flags == e2.Flags)
		}
		rt.Assert("c03-l1-holds-nothing-that-differs-from-l2", rt.Implies(e1.Present, rt.And(e2.Present, same)))
	}
	if rt.Symbolic() {
		rt.Assert("c03-no-lock-held", rt.HeldLocks() == 0)
	}
}

// ZZLockWiring (C03): the two constructors the proxy uses for its two ports build orcas over
// the very same locker objects, and the stripe chosen depends on the key only.
func ZZLockWiring() {
	multi := rt.Choice("multireader", 2) == 1
	conc := uint8(rt.Choice("concurrency", 3))
	ocMain, slot := orcas.Locked(orcas.L1L2, multi, conc)
	ocBatch := orcas.LockedWithExisting(orcas.L1L2Batch, slot)
	lg := orcas.ZZInstrumentLocks(slot)
	st := &model.Store{}
	mko := func(oc orcas.OrcaConst) orcas.Orca {
		return oc(model.NewHandler(st, 0), model.NewHandler(st, 0), &model.Rec{})
	}
	m1, m2, bt := mko(ocMain), mko(ocMain), mko(ocBatch)
	rt.Reach("wired")
	rt.Assert("c03-ports-share-lockers", orcas.ZZSameLockers(m1, bt) && orcas.ZZSameLockers(m1, m2))
	key := rt.Bytes("key", 1+rt.Choice("keylen", 3))
	i1, i2, i3 := orcas.ZZLockIndex(m1, key), orcas.ZZLockIndex(m2, append([]byte(nil), key...)), orcas.ZZLockIndex(bt, key)
	rt.Assert("c03-stripe-is-a-function-of-the-key", i1 == i2 && i1 == i3 && i1 >= 0 && i1 < 1<<conc)
	// every key of a multi-key get (and gete) is locked on the stripe a single-key command on
	// that key uses, whatever keys precede it in the request
	ks := [][]byte{model.Keys[rt.Choice("k1", 3)], model.Keys[rt.Choice("k2", 3)], model.Keys[rt.Choice("k3", 3)]}
	before := len(lg.Events)
	req := common.GetRequest{Keys: [][]byte{ks[0], ks[1], ks[2]}, Opaques: []uint32{1, 2, 3}, Quiet: []bool{false, false, false}}
	var target orcas.Orca = m1
	if rt.Choice("port", 2) == 1 {
		target = bt
	}
	target.Get(req)
	var acquired []int
	for _, e := range lg.Events[before:] {
		if e.Acquire {
			acquired = append(acquired, e.Idx)
		}
	}
	_, maxHeld, _, _ := lg.ZZSnapshot()
	rt.Assert("c12-at-most-one-lock-during-a-multi-key-get", maxHeld <= 1)
	rt.Assert("c03-multi-get-locks-once-per-key", len(acquired) == 3)
	if len(acquired) == 3 {
		for j := range ks {
			rt.Assert("c03-multi-get-locks-each-key-on-its-own-stripe", acquired[j] == orcas.ZZLockIndex(m2, ks[j]))
		}
	}
}
