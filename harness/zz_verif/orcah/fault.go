package orcah

import (
	"bufio"
	"io"

	"github.com/netflix/rend/common"
	"github.com/netflix/rend/handlers"
	"github.com/netflix/rend/handlers/memcached/std"
	"github.com/netflix/rend/orcas"
	"github.com/netflix/rend/protocol/binprot"
	"github.com/netflix/rend/server"
	"github.com/netflix/rend/zz_verif/model"
	"github.com/netflix/rend/zz_verif/rt"
	"github.com/netflix/rend/zz_verif/wire"
)

// ZZFault (C10; fault-free it is the whole-stack glue run of C01): one binary client request
// as bytes -> real parser -> DefaultServer.Loop -> real orca -> real std handlers -> binary
// protocol -> in-process memcached models for L1 and L2, one of which answers one symbolic
// request with an error status, or breaks its connection before / after / inside that reply.
//
// Asserted: the request terminates (no read that would wait for ever, step budget), nothing
// crashes outside the loop's recover, the client sees only complete frames, all three
// connections are closed; afterwards a second client on fresh connections is served, and what
// it reads is the old value, the new value or a miss -- never anything else, and never the old
// value once the write or delete was acknowledged as successful.

var faultStatuses = []uint16{0x01, 0x02, 0x03, 0x04, 0x05, 0x81, 0x82, 0x84, 0x85, 0x86}

// loadMC puts the symbolic two-tier state of w into the two backend models.
func loadMC(w *world, nk int, l1, l2 *model.MC) {
	for i := 0; i < nk; i++ {
		k := string(model.Keys[i])
		e2 := &w.m2.E[i]
		l2.Put(k, e2.Present, e2.Data, e2.Flags, e2.Deadline)
		if w.twoTier {
			e1 := &w.m1.E[i]
			l1.Put(k, e1.Present, e1.Data, e1.Flags, e1.Deadline)
		}
	}
}

// readBack gets key i through a fresh L1L2 (or L1Only) orca on fresh backend connections.
func readBack(twoTier bool, l1, l2 *model.MC, i int) (model.Reply, bool) {
	rec := &model.Rec{}
	c1 := l1.NewConn("l1-second-client")
	h1 := std.NewHandler(c1)
	var o orcas.Orca
	var c2 *model.MC
	if twoTier {
		c2 = l2.NewConn("l2-second-client")
		o = orcas.L1L2(h1, std.NewHandler(c2), rec)
	} else {
		o = orcas.L1Only(h1, nil, rec)
	}
	err := o.Get(common.GetRequest{Keys: [][]byte{append([]byte(nil), model.Keys[i]...)}, Opaques: []uint32{99}, Quiet: []bool{false}})
	ok := err == nil && len(rec.Log) == 2 && rec.Log[0].Kind == "get" && rec.Log[1].Kind == "getend" && c1.Starved == 0
	if c2 != nil {
		ok = ok && c2.Starved == 0
	}
	if !ok {
		return model.Reply{}, false
	}
	return rec.Log[0], true
}

func ZZFault() {
	nk := rt.Param("nk", 1)
	if rt.Param("poolhavoc", 0) == 1 {
		// C14 pool discipline: an object returned to a sync.Pool may be taken and overwritten by
		// another connection at once, so its contents are arbitrary from then on
		rt.PoolHavoc(true)
	}
	cfg := rt.Param("orca", -1)
	if cfg < 0 {
		cfg = rt.Choice("orca", rt.Param("norca", 3))
	}
	oc, twoTier := construct(cfg)
	w := newWorld(twoTier, nk, 2)
	l1 := model.NewMC("l1", w.now)
	l2 := model.NewMC("l2", w.now)
	if !twoTier {
		// single tier: newWorld keeps the one store in m1
		for i := 0; i < nk; i++ {
			e := &w.m1.E[i]
			l1.Put(string(model.Keys[i]), e.Present, e.Data, e.Flags, e.Deadline)
		}
	} else {
		loadMC(w, nk, l1, l2)
	}
	rt.ClockSet(w.now)
	rt.ClockFreeze(true)

	// the client's request
	wire.KeyHook = keyHook("key.", nk)
	defer func() { wire.KeyHook = nil }()
	kinds := []int{wire.KSet, wire.KAdd, wire.KReplace, wire.KAppend, wire.KPrepend, wire.KDelete, wire.KTouch, wire.KGat, wire.KGet, wire.KGetQNoop}
	followup := rt.Param("followup", 0) == 1
	if followup {
		// multi-key reads followed by another read on the same client connection
		kinds = []int{wire.KGetQGet, wire.KGetQ2Noop, wire.KSet}
	}
	var kind int
	if k := rt.Param("kind", -1); k >= 0 {
		kind = k
	} else {
		kind = kinds[rt.Choice("kind", len(kinds))]
	}
	it := wire.BinIntent("a.", kind, 1, 1)
	ki := model.KeyIndex(it.Keys[0])
	stream := it.Bytes
	var fu *wire.Intent
	const fuOpaque = 0xB0B0B0B0
	if followup {
		fu = wire.BinIntent("b.", wire.KGet, 1, 0)
		rt.Assume(fu.Opaques[0] == fuOpaque)
		for _, o := range it.Opaques {
			rt.Assume(o != fuOpaque)
		}
		rt.Assume(rt.Not(rt.And(it.NoopEnd, it.NoopOpaque == fuOpaque)))
		stream = append(append([]byte(nil), it.Bytes...), fu.Bytes...)
	}

	// the fault
	fmc := l1
	if twoTier && rt.Choice("fault.tier", 2) == 1 {
		fmc = l2
	}
	fk := model.FaultNone
	if rt.Param("nofault", 0) == 0 {
		fk = rt.Choice("fault.kind", 5) // 0 none
	}
	if fk != model.FaultNone {
		fmc.FaultAt = rt.Choice("fault.at", rt.Param("faultpositions", 3))
		fmc.FaultKind = fk
		switch fk {
		case model.FaultStatusReply:
			fmc.FaultStatus = faultStatuses[rt.Choice("fault.status", len(faultStatuses))]
		case model.FaultCutReply:
			if followup {
				fmc.CutAt = []int{1, 24, 26}[rt.Choice("fault.cut", 3)]
			} else {
				fmc.CutAt = 1 + rt.Choice("fault.cut", 30)
			}
		}
	}

	cl := &wire.Client{In: stream, EOF: true}
	rd, wr := bufio.NewReader(cl), bufio.NewWriter(cl)
	h1 := std.NewHandler(l1)
	var h2 handlers.Handler
	if twoTier {
		h2 = std.NewHandler(l2)
	}
	var closers []io.Closer
	closers = append(closers, cl, h1)
	if twoTier {
		closers = append(closers, h2)
	} else {
		closers = append(closers, &wire.Closer{})
	}
	s := server.Default(closers, binprot.NewBinaryParser(rd), oc(h1, h2, binprot.NewBinaryResponder(wr)))
	s.Loop()
	rt.Reach("loop-returned")

	faulted := fmc.Faulted
	if faulted {
		rt.Reach("fault-delivered")
	}
	// A status that is a normal answer for the faulted backend command ("not found" to a
	// replace/delete/touch/get, "not stored"/"not found" to an append/prepend, "exists" to an
	// add) is not an error status but a backend lying about what it holds: outside the property.
	lying := false
	if faulted && fk == model.FaultStatusReply {
		st := fmc.FaultStatus
		switch fmc.FaultedOp {
		case 0x03, 0x04, 0x1c, 0x00, 0x09, 0x1d, 0x1e, 0x40, 0x41:
			lying = st == 0x01
		case 0x0e, 0x0f:
			lying = st == 0x01 || st == 0x05
		case 0x02:
			lying = st == 0x02
		}
	}
	rt.Assert("c10-no-wait-for-a-reply-that-never-comes", l1.Starved == 0 && l2.Starved == 0)
	rt.Assert("c10-connections-closed", cl.Closed == 1 && l1.Closed == 1 && (!twoTier || l2.Closed == 1))
	fs, ok := wire.DecodeBinary(cl.Out)
	rt.Assert("c10-client-sees-only-complete-frames", ok)

	if followup && ok {
		// the follow-up get on the same connection: unanswered (connection given up), a
		// not-found / error frame, or the value the key holds before or after the first request
		rt.Reach("followup-checked")
		kf := model.KeyIndex(fu.Keys[0])
		oldF := w.ref.E[kf]
		nwF := w.ref.Clone("fu")
		if it.Type == common.RequestSet {
			nwF.Set(ki, it.Data, it.Flags, it.TTL, w.now)
		}
		newF := nwF.E[kf]
		n := 0
		for _, f := range fs {
			if !rt.FixBool(f.Opaque == fuOpaque) {
				continue
			}
			n++
			if f.Status != 0 {
				continue
			}
			isE := func(e model.Entry) bool {
				if len(f.Extras) != 4 || len(f.Body) != len(e.Data) {
					return false
				}
				return rt.And(e.Present, rt.And(rt.BytesEq(f.Body, e.Data), be32of(f.Extras) == e.Flags))
			}
			rt.Assert("c10-later-read-on-the-connection-gets-its-own-keys-value", rt.Or(isE(oldF), isE(newF)))
		}
		rt.Assert("c10-at-most-one-reply-to-the-later-read", n <= 1)
		return
	}
	// what the client was told
	ack := false // success reply to a write / delete / touch
	if ok {
		switch it.Type {
		case common.RequestGet:
			// value/not-found frames, then possibly the no-op terminator; nothing after an error status other than not-found
		default:
			rt.Assert("c10-at-most-one-reply", len(fs) <= 1)
			if len(fs) == 1 {
				rt.Assert("c10-reply-echoes-opaque", fs[0].Opaque == it.Opaques0())
				ack = fs[0].Status == 0
			}
		}
	}
	if !faulted && ok {
		// fault-free run: exactly the reference map's reply (wire-level C01)
		g := expectIntent(it, w.ref.Clone("expect"), w.now, false, twoTier)
		rt.Assert("c01-glue-frame-count", len(fs) == len(g.units))
		if len(fs) == len(g.units) {
			rt.Assert("c01-glue-reply", matchGroup(len(fs), g.free, func(i, j int) bool { return binMatch(fs[i], g.units[j]) }))
		}
	}

	// second client, fresh connections, after the fault: old value, new value or miss
	old := w.ref.E[ki]
	nw := w.ref.Clone("new")
	switch it.Type {
	case common.RequestSet:
		nw.Set(ki, it.Data, it.Flags, it.TTL, w.now)
	case common.RequestAdd:
		nw.Add(ki, it.Data, it.Flags, it.TTL, w.now)
	case common.RequestReplace:
		nw.Replace(ki, it.Data, it.Flags, it.TTL, w.now)
	case common.RequestAppend:
		nw.Append(ki, it.Data)
	case common.RequestPrepend:
		nw.Prepend(ki, it.Data)
	case common.RequestDelete:
		nw.Delete(ki)
	case common.RequestTouch:
		nw.Touch(ki, it.TTL, w.now)
	case common.RequestGat:
		if nw.E[ki].Present {
			nw.Touch(ki, it.TTL, w.now)
		}
	}
	newE := nw.E[ki]
	r, served := readBack(twoTier, l1, l2, ki)
	rt.Assert("c10-second-client-is-served", served)
	if !served {
		return
	}
	rt.Reach("read-back")
	is := func(e model.Entry) bool {
		if len(r.Data) != len(e.Data) {
			return false
		}
		return rt.And(e.Present, rt.And(rt.BytesEq(r.Data, e.Data), r.Flags == e.Flags))
	}
	if r.Miss {
		if !faulted {
			rt.Assert("c01-glue-read-back-present", rt.Not(newE.Present))
		}
		return
	}
	isOld, isNew := is(old), is(newE)
	rt.Assert("c10-read-after-fault-is-old-or-new-value", rt.Or(isOld, isNew))
	writes := it.Type != common.RequestGet && it.Type != common.RequestGat && it.Type != common.RequestTouch
	if ack && writes && !lying {
		rt.Assert("c10-no-stale-value-after-acknowledged-write", isNew)
	}
	if !faulted {
		rt.Assert("c01-glue-read-back-value", isNew)
	}
}
