package wire

import (
	"encoding/binary"

	"github.com/netflix/rend/zz_verif/rt"
)

// Strict, independent decoders for the *replies* of both protocols (written from the protocol
// description). They accept only complete, self-consistent frames and consume the whole
// capture; anything else is reported through ok=false.

// Frame is one binary response frame.
type Frame struct {
	Op      uint8
	Status  uint16
	Opaque  uint32
	Extras  []byte
	Key     []byte
	Body    []byte
	DataTyp uint8
}

// DecodeBinary splits a capture into response frames. Length fields and status are
// concretised (rt.Fix*): they decide the shape of the stream.
func DecodeBinary(out []byte) ([]Frame, bool) {
	var fs []Frame
	for len(out) > 0 {
		if len(out) < 24 {
			return fs, false
		}
		h := out[:24]
		if rt.FixU64(uint64(h[0])) != 0x81 {
			return fs, false
		}
		kl := int(rt.FixU64(uint64(binary.BigEndian.Uint16(h[2:4]))))
		el := int(rt.FixU64(uint64(h[4])))
		total := int(rt.FixU64(uint64(binary.BigEndian.Uint32(h[8:12]))))
		if total < kl+el || len(out) < 24+total {
			return fs, false
		}
		f := Frame{
			Op:      uint8(rt.FixU64(uint64(h[1]))),
			Status:  uint16(rt.FixU64(uint64(binary.BigEndian.Uint16(h[6:8])))),
			Opaque:  binary.BigEndian.Uint32(h[12:16]),
			DataTyp: h[5],
			Extras:  out[24 : 24+el],
			Key:     out[24+el : 24+el+kl],
			Body:    out[24+el+kl : 24+total],
		}
		fs = append(fs, f)
		out = out[24+total:]
	}
	return fs, true
}

// TextReply is one reply unit of the text protocol: a status line, or a VALUE block.
type TextReply struct {
	Line  string // status line without CRLF ("" for a value)
	Value bool
	Key   []byte
	Flags uint64
	Data  []byte
}

// readLine returns the bytes up to CRLF (bytes concretised: reply lines are protocol text,
// except where noted) and the rest.
func readLine(out []byte) ([]byte, []byte, bool) {
	for i := 0; i+1 < len(out); i++ {
		if rt.FixU64(uint64(out[i])) == '\r' {
			if rt.FixU64(uint64(out[i+1])) != '\n' {
				return nil, nil, false
			}
			return out[:i], out[i+2:], true
		}
	}
	return nil, nil, false
}

func hasPrefix(b []byte, p string) bool {
	if len(b) < len(p) {
		return false
	}
	for i := 0; i < len(p); i++ {
		if rt.FixU64(uint64(b[i])) != uint64(p[i]) {
			return false
		}
	}
	return true
}

func fixString(b []byte) string {
	s := make([]byte, len(b))
	for i := range b {
		s[i] = byte(rt.FixU64(uint64(b[i])))
	}
	return string(s)
}

// DecodeText splits a capture of the text protocol into reply units. The key of a VALUE line
// is concrete in the harnesses that use this decoder; the flags digits may be symbolic (their
// value is returned as a term), the length field is concrete, the data block arbitrary bytes.
func DecodeText(out []byte) ([]TextReply, bool) {
	var rs []TextReply
	for len(out) > 0 {
		if hasPrefix(out, "VALUE ") {
			// VALUE <key> <flags> <bytes>\r\n<data>\r\n ; flags digits may be symbolic, so the
			// line is scanned by position: key up to the next space (concrete), then digits.
			i := 6
			ks := i
			for i < len(out) && rt.FixU64(uint64(out[i])) != ' ' {
				i++
			}
			if i >= len(out) {
				return rs, false
			}
			key := out[ks:i]
			i++
			// flags: decimal digits up to the next space; a digit position is recognised by the
			// space that ends the field being concrete in position on this path
			fs := i
			for i < len(out) && rt.FixU64(uint64(rt.IteU8(out[i] == ' ', 1, 0))) == 0 {
				i++
			}
			if i >= len(out) || i == fs {
				return rs, false
			}
			flags := uint64(0)
			for _, c := range out[fs:i] {
				rt.Assert("c08-text-flags-are-digits", rt.And(c >= '0', c <= '9'))
				flags = flags*10 + uint64(c-'0')
			}
			i++
			ls := i
			for i < len(out) && rt.FixU64(uint64(out[i])) != '\r' {
				i++
			}
			if i+1 >= len(out) || i == ls || rt.FixU64(uint64(out[i+1])) != '\n' {
				return rs, false
			}
			n := 0
			for _, c := range out[ls:i] {
				d := int(rt.FixU64(uint64(c)))
				if d < '0' || d > '9' {
					return rs, false
				}
				n = n*10 + d - '0'
			}
			i += 2
			if i+n+2 > len(out) {
				return rs, false
			}
			data := out[i : i+n]
			if rt.FixU64(uint64(out[i+n])) != '\r' || rt.FixU64(uint64(out[i+n+1])) != '\n' {
				return rs, false
			}
			rs = append(rs, TextReply{Value: true, Key: key, Flags: flags, Data: data})
			out = out[i+n+2:]
			continue
		}
		line, rest, ok := readLine(out)
		if !ok {
			return rs, false
		}
		rs = append(rs, TextReply{Line: fixString(line)})
		out = rest
	}
	return rs, true
}
