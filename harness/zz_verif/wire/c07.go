package wire

import (
	"bufio"
	"encoding/binary"

	"github.com/netflix/rend/common"
	"github.com/netflix/rend/protocol/binprot"
	"github.com/netflix/rend/protocol/textprot"
	"github.com/netflix/rend/zz_verif/rt"
)

// ---- independent encoders (written from the protocol description, not from rend's code)

func binHeader(op uint8, keyLen, extLen, bodyLen int, opaque uint32) []byte {
	h := make([]byte, 24)
	h[0] = 0x80
	h[1] = op
	binary.BigEndian.PutUint16(h[2:4], uint16(keyLen))
	h[4] = uint8(extLen)
	binary.BigEndian.PutUint32(h[8:12], uint32(keyLen+extLen+bodyLen))
	binary.BigEndian.PutUint32(h[12:16], opaque)
	return h
}

func be32(v uint32) []byte {
	b := make([]byte, 4)
	binary.BigEndian.PutUint32(b, v)
	return b
}

// Intent is what the client meant to send.
type Intent struct {
	Type    common.RequestType
	Keys    [][]byte
	Opaques []uint32
	Quiets  []bool
	Flags   uint32
	TTL     uint32
	Data    []byte
	Quiet   bool
	NoopEnd bool
	NoopOpaque uint32
	Bytes   []byte // encoding
	ErrPfx  string // text requests that must be answered with an error line: its prefix
}

const (
	kSet = iota
	kSetQ
	kAdd
	kAddQ
	kReplace
	kReplaceQ
	kAppend
	kAppendQ
	kPrepend
	kPrependQ
	kGet
	kGetQGet   // GetQ + Get
	kGetQNoop  // GetQ + Noop
	kGetQ2Noop // GetQ + GetQ + Noop
	kGetE
	kGetEQNoop
	kGat
	kDelete
	kTouch
	kNoop
	kVersion
	kQuit
	kQuitQ
	kStat
	nBinKinds
)

// KeyHook, when set, supplies the key bytes of generated requests (the orchestrator-level
// harnesses draw keys from the concrete model alphabet instead of symbolic bytes).
var KeyHook func(name string) []byte

func symKey(name string, n int) []byte {
	if KeyHook != nil {
		return KeyHook(name)
	}
	return rt.Bytes(name, n)
}

// binIntent builds a symbolic request of the given kind.
func binIntent(p string, kind, keyLen, dataLen int) *Intent {
	it := &Intent{}
	key := func(s string) []byte { return symKey(p+s, keyLen) }
	opq := func(s string) uint32 { return rt.U32(p + s) }
	setLike := func(t common.RequestType, op uint8, quiet bool) {
		it.Type, it.Quiet = t, quiet
		it.Keys = [][]byte{key("key")}
		it.Flags, it.TTL = rt.U32(p+"flags"), rt.U32(p+"ttl")
		it.Data = rt.Bytes(p+"data", dataLen)
		it.Opaques = []uint32{opq("opaque")}
		it.Bytes = append(binHeader(op, len(it.Keys[0]), 8, dataLen, it.Opaques[0]), be32(it.Flags)...)
		it.Bytes = append(it.Bytes, be32(it.TTL)...)
		it.Bytes = append(it.Bytes, it.Keys[0]...)
		it.Bytes = append(it.Bytes, it.Data...)
	}
	appLike := func(t common.RequestType, op uint8, quiet bool) {
		it.Type, it.Quiet = t, quiet
		it.Keys = [][]byte{key("key")}
		it.Data = rt.Bytes(p+"data", dataLen)
		it.Opaques = []uint32{opq("opaque")}
		it.Bytes = append(binHeader(op, len(it.Keys[0]), 0, dataLen, it.Opaques[0]), it.Keys[0]...)
		it.Bytes = append(it.Bytes, it.Data...)
	}
	keyOnly := func(op uint8, k []byte, o uint32) []byte { return append(binHeader(op, len(k), 0, 0, o), k...) }
	addGet := func(op uint8, quiet bool, s string) {
		k, o := key("key"+s), opq("opaque"+s)
		it.Keys, it.Opaques, it.Quiets = append(it.Keys, k), append(it.Opaques, o), append(it.Quiets, quiet)
		it.Bytes = append(it.Bytes, keyOnly(op, k, o)...)
	}
	noop := func() {
		it.NoopEnd, it.NoopOpaque = true, opq("noopopaque")
		it.Bytes = append(it.Bytes, binHeader(0x0a, 0, 0, 0, it.NoopOpaque)...)
	}
	switch kind {
	case kSet:
		setLike(common.RequestSet, 0x01, false)
	case kSetQ:
		setLike(common.RequestSet, 0x11, true)
	case kAdd:
		setLike(common.RequestAdd, 0x02, false)
	case kAddQ:
		setLike(common.RequestAdd, 0x12, true)
	case kReplace:
		setLike(common.RequestReplace, 0x03, false)
	case kReplaceQ:
		setLike(common.RequestReplace, 0x13, true)
	case kAppend:
		appLike(common.RequestAppend, 0x0e, false)
	case kAppendQ:
		appLike(common.RequestAppend, 0x19, true)
	case kPrepend:
		appLike(common.RequestPrepend, 0x0f, false)
	case kPrependQ:
		appLike(common.RequestPrepend, 0x1a, true)
	case kGet:
		it.Type = common.RequestGet
		addGet(0x00, false, "")
	case kGetQGet:
		it.Type = common.RequestGet
		addGet(0x09, true, "1")
		addGet(0x00, false, "2")
	case kGetQNoop:
		it.Type = common.RequestGet
		addGet(0x09, true, "1")
		noop()
	case kGetQ2Noop:
		it.Type = common.RequestGet
		addGet(0x09, true, "1")
		addGet(0x09, true, "2")
		noop()
	case kGetE:
		it.Type = common.RequestGetE
		addGet(0x40, false, "")
	case kGetEQNoop:
		it.Type = common.RequestGetE
		addGet(0x41, true, "1")
		noop()
	case kGat, kTouch:
		it.Type = common.RequestGat
		op := uint8(0x1d)
		if kind == kTouch {
			it.Type, op = common.RequestTouch, 0x1c
		}
		it.Keys = [][]byte{key("key")}
		it.TTL = rt.U32(p + "ttl")
		it.Opaques = []uint32{opq("opaque")}
		it.Bytes = append(binHeader(op, len(it.Keys[0]), 4, 0, it.Opaques[0]), be32(it.TTL)...)
		it.Bytes = append(it.Bytes, it.Keys[0]...)
	case kDelete:
		it.Type = common.RequestDelete
		it.Keys = [][]byte{key("key")}
		it.Opaques = []uint32{opq("opaque")}
		it.Bytes = keyOnly(0x04, it.Keys[0], it.Opaques[0])
	case kNoop, kVersion, kQuit, kQuitQ, kStat:
		op := map[int]uint8{kNoop: 0x0a, kVersion: 0x0b, kQuit: 0x07, kQuitQ: 0x17, kStat: 0x10}[kind]
		it.Type = map[int]common.RequestType{kNoop: common.RequestNoop, kVersion: common.RequestVersion, kQuit: common.RequestQuit, kQuitQ: common.RequestQuit, kStat: common.RequestStat}[kind]
		it.Quiet = kind == kQuitQ
		it.Opaques = []uint32{opq("opaque")}
		it.Bytes = binHeader(op, 0, 0, 0, it.Opaques[0])
	}
	return it
}

// checkDecoded asserts that the decoded request is the intent.
func checkDecoded(p string, it *Intent, req common.Request, typ common.RequestType, err error, text bool) {
	rt.Assert(p+"-no-error", err == nil)
	if err != nil {
		return
	}
	rt.Assert(p+"-type", typ == it.Type)
	if typ != it.Type {
		return
	}
	eq := func(a, b []byte) bool { return len(a) == len(b) && rt.BytesEq(a, b) }
	switch r := req.(type) {
	case common.SetRequest:
		rt.Assert(p+"-key", eq(r.Key, it.Keys[0]))
		rt.Assert(p+"-data", eq(r.Data, it.Data))
		if it.Type == common.RequestSet || it.Type == common.RequestAdd || it.Type == common.RequestReplace || text {
			rt.Assert(p+"-flags-ttl", rt.And(r.Flags == it.Flags, r.Exptime == it.TTL))
		}
		if !text {
			rt.Assert(p+"-opaque", r.Opaque == it.Opaques[0])
			rt.Assert(p+"-quiet", r.Quiet == it.Quiet)
		}
	case common.GetRequest:
		rt.Assert(p+"-nkeys", len(r.Keys) == len(it.Keys) && len(r.Opaques) == len(it.Keys) && len(r.Quiet) == len(it.Keys))
		if len(r.Keys) != len(it.Keys) || len(r.Opaques) != len(it.Keys) || len(r.Quiet) != len(it.Keys) {
			return
		}
		for j := range it.Keys {
			rt.Assert(p+"-key", eq(r.Keys[j], it.Keys[j]))
			if !text {
				rt.Assert(p+"-opaque", r.Opaques[j] == it.Opaques[j])
				rt.Assert(p+"-quiet", r.Quiet[j] == it.Quiets[j])
			}
		}
		rt.Assert(p+"-noopend", r.NoopEnd == it.NoopEnd)
		if it.NoopEnd {
			rt.Assert(p+"-noopopaque", r.NoopOpaque == it.NoopOpaque)
		}
	case common.GATRequest:
		rt.Assert(p+"-key", eq(r.Key, it.Keys[0]))
		rt.Assert(p+"-ttl", r.Exptime == it.TTL)
		rt.Assert(p+"-opaque", r.Opaque == it.Opaques[0])
	case common.TouchRequest:
		rt.Assert(p+"-key", eq(r.Key, it.Keys[0]))
		rt.Assert(p+"-ttl", r.Exptime == it.TTL)
		if !text {
			rt.Assert(p+"-opaque", r.Opaque == it.Opaques[0])
		}
	case common.DeleteRequest:
		rt.Assert(p+"-key", eq(r.Key, it.Keys[0]))
		if !text {
			rt.Assert(p+"-opaque", r.Opaque == it.Opaques[0])
		}
	case common.NoopRequest:
		if !text {
			rt.Assert(p+"-opaque", r.Opaque == it.Opaques[0])
		}
	case common.VersionRequest:
		if !text {
			rt.Assert(p+"-opaque", r.Opaque == it.Opaques[0])
		}
	case common.StatRequest:
		if !text {
			rt.Assert(p+"-opaque", r.Opaque == it.Opaques[0])
		}
	case common.QuitRequest:
		if !text {
			rt.Assert(p+"-opaque", r.Opaque == it.Opaques[0])
			rt.Assert(p+"-quiet", r.Quiet == it.Quiet)
		}
	default:
		rt.Fail(p+"-request-struct", "unexpected request struct")
	}
}

// ZZBinaryDecode (C07): a pipeline of two symbolic binary requests, delivered with one cut at
// an arbitrary offset: both decode to exactly what was sent, each consuming exactly its own
// bytes.
func ZZBinaryDecode() {
	keyLen := rt.Param("keylen", 2)
	dataLen := rt.Param("datalen", 2)
	k1 := rt.Param("kind1", -1)
	if k1 < 0 {
		k1 = rt.Choice("kind1", nBinKinds)
	}
	second := []int{kSet, kGet, kGetQNoop, kNoop}
	k2 := second[rt.Choice("kind2", len(second))]
	a := binIntent("a.", k1, keyLen, dataLen)
	b := binIntent("b.", k2, 1, 1)
	stream := append(append([]byte(nil), a.Bytes...), b.Bytes...)
	cl := &Client{In: stream, EOF: false}
	if c := rt.Choice("cut", len(stream)); c > 0 {
		cl.Cuts = []int{c}
	}
	if rt.Param("twocuts", 0) == 1 {
		if c := rt.Choice("cut2", len(stream)); c > 0 {
			cl.Cuts = append(cl.Cuts, c)
		}
	}
	rd := bufio.NewReader(cl)
	ps := binprot.NewBinaryParser(rd)
	r1, t1, _, e1 := ps.Parse()
	rt.Reach("first-parsed")
	checkDecoded("c07-bin", a, r1, t1, e1, false)
	rt.Assert("c07-bin-consumed-exactly", cl.Consumed()-rd.Buffered() == len(a.Bytes))
	r2, t2, _, e2 := ps.Parse()
	rt.Reach("second-parsed")
	checkDecoded("c07-bin", b, r2, t2, e2, false)
	rt.Assert("c07-bin-consumed-all", cl.Consumed() == len(stream) && rd.Buffered() == 0)
	rt.Assert("c07-bin-no-read-past-end", cl.Blocked == 0)
}

// ---- text

func appendDec(b []byte, v int) []byte {
	if v >= 10 {
		b = appendDec(b, v/10)
	}
	return append(b, byte('0'+v%10))
}

// symDigits returns n symbolic decimal digits and the number they denote (as uint64).
func symDigits(name string, n int) ([]byte, uint64) {
	d := rt.Bytes(name, n)
	v := uint64(0)
	for _, c := range d {
		rt.Assume(rt.And(c >= '0', c <= '9'))
		v = v*10 + uint64(c-'0')
	}
	return d, v
}

func textKey(name string, n int) []byte {
	if KeyHook != nil {
		return KeyHook(name)
	}
	k := rt.Bytes(name, n)
	for _, c := range k {
		rt.Assume(rt.And(c >= 0x21, c <= 0x7e))
	}
	return k
}

const (
	tSet = iota
	tAdd
	tReplace
	tAppend
	tPrepend
	tGet1
	tGet2
	tGet3
	tDelete
	tTouch
	tNoop
	tVersion
	tQuit
	nTextKinds
	// kinds below are not part of the C07 decode round trip (they are answered with errors): C08
	tUnknown
	tBadTouch
)

func textIntent(p string, kind, keyLen, dataLen, flagDigits int) *Intent {
	it := &Intent{}
	sp := []byte(" ")
	crlf := []byte("\r\n")
	switch kind {
	case tSet, tAdd, tReplace, tAppend, tPrepend:
		word := []string{"set", "add", "replace", "append", "prepend"}[kind]
		it.Type = []common.RequestType{common.RequestSet, common.RequestAdd, common.RequestReplace, common.RequestAppend, common.RequestPrepend}[kind]
		it.Keys = [][]byte{textKey(p+"key", keyLen)}
		fd, fv := symDigits(p+"flags", flagDigits)
		td, tv := symDigits(p+"ttl", flagDigits)
		rt.Assume(rt.And(fv <= 0xffffffff, tv <= 0xffffffff))
		it.Flags, it.TTL = uint32(fv), uint32(tv)
		it.Data = rt.Bytes(p+"data", dataLen) // arbitrary bytes incl. CR, LF, 0x80
		b := append([]byte(word), sp...)
		b = append(append(b, it.Keys[0]...), sp...)
		b = append(append(b, fd...), sp...)
		b = append(append(b, td...), sp...)
		b = append(appendDec(b, dataLen), crlf...)
		b = append(append(b, it.Data...), crlf...)
		it.Bytes = b
	case tGet1, tGet2, tGet3:
		it.Type = common.RequestGet
		b := []byte("get")
		for j := 0; j <= kind-tGet1; j++ {
			k := textKey(p+"key"+string(rune('1'+j)), keyLen)
			it.Keys = append(it.Keys, k)
			b = append(append(b, sp...), k...)
		}
		it.Bytes = append(b, crlf...)
	case tDelete:
		it.Type = common.RequestDelete
		it.Keys = [][]byte{textKey(p+"key", keyLen)}
		it.Bytes = append(append([]byte("delete "), it.Keys[0]...), crlf...)
	case tTouch:
		it.Type = common.RequestTouch
		it.Keys = [][]byte{textKey(p+"key", keyLen)}
		td, tv := symDigits(p+"ttl", flagDigits)
		rt.Assume(tv <= 0xffffffff)
		it.TTL = uint32(tv)
		b := append(append([]byte("touch "), it.Keys[0]...), sp...)
		it.Bytes = append(append(b, td...), crlf...)
	case tNoop:
		it.Type = common.RequestNoop
		it.Bytes = []byte("noop\r\n")
	case tVersion:
		it.Type = common.RequestVersion
		it.Bytes = []byte("version\r\n")
	case tQuit:
		it.Type = common.RequestQuit
		it.Bytes = []byte("quit\r\n")
	case tUnknown:
		it.Type = common.RequestUnknown
		it.Bytes = []byte("bogus\r\n")
		it.ErrPfx = "ERROR"
	case tBadTouch:
		// a bad numeric field on a command without a data block: client error, stream in sync
		it.Type = common.RequestUnknown
		it.ErrPfx = "CLIENT_ERROR"
		it.Bytes = append(append([]byte("touch "), textKey(p+"key", keyLen)...), []byte(" 1x\r\n")...)
	}
	return it
}

// ZZTextDecode (C07): the same for the text protocol; keys are arbitrary printable bytes, the
// numeric fields arbitrary decimal digit strings within 32 bits, the data block arbitrary
// bytes (CR, LF, 0x80 included).
func ZZTextDecode() {
	keyLen := rt.Param("keylen", 2)
	dataLen := rt.Param("datalen", 2)
	digits := rt.Param("digits", 10)
	k1 := rt.Param("kind1", -1)
	if k1 < 0 {
		k1 = rt.Choice("kind1", nTextKinds)
	}
	second := []int{tSet, tGet2, tNoop}
	k2 := second[rt.Choice("kind2", len(second))]
	a := textIntent("a.", k1, keyLen, dataLen, digits)
	b := textIntent("b.", k2, 1, 1, 1)
	stream := append(append([]byte(nil), a.Bytes...), b.Bytes...)
	cl := &Client{In: stream, EOF: false}
	if c := rt.Choice("cut", len(stream)); c > 0 {
		cl.Cuts = []int{c}
	}
	rd := bufio.NewReader(cl)
	ps := textprot.NewTextParser(rd)
	r1, t1, _, e1 := ps.Parse()
	rt.Reach("first-parsed")
	checkDecoded("c07-text", a, r1, t1, e1, true)
	rt.Assert("c07-text-consumed-exactly", cl.Consumed()-rd.Buffered() == len(a.Bytes))
	r2, t2, _, e2 := ps.Parse()
	rt.Reach("second-parsed")
	checkDecoded("c07-text", b, r2, t2, e2, true)
	rt.Assert("c07-text-consumed-all", cl.Consumed() == len(stream) && rd.Buffered() == 0)
	rt.Assert("c07-text-no-read-past-end", cl.Blocked == 0)
}

// ZZDisambiguate (C07): the first byte of a connection decides the protocol.
func ZZDisambiguate() {
	first := rt.U8("first")
	cl := &Client{In: []byte{first, 'x', 'y', 'z'}, EOF: true}
	rd := bufio.NewReader(cl)
	bin, e1 := binprot.Components.NewDisambiguator(rd).CanParse()
	txt, e2 := textprot.Components.NewDisambiguator(rd).CanParse()
	rt.Reach("disambiguated")
	rt.Assert("c07-disambiguate-no-error", e1 == nil && e2 == nil)
	rt.Assert("c07-binary-iff-0x80", bin == (first == 0x80))
	rt.Assert("c07-text-iff-lowercase", txt == rt.And(first >= 'a', first <= 'z'))
	rt.Assert("c07-peek-consumes-nothing", rd.Buffered() == 4)
}

// ZZTextLongLine (C07): a text get whose command line is longer than the connection's 4096-byte
// read buffer decodes to one request with every key, consuming exactly its bytes; the request
// after it decodes normally.
func ZZTextLongLine() {
	extra := rt.Param("extra", 0) // line length = 4096 + extra - few
	var keys [][]byte
	line := []byte("get")
	i := 0
	for len(line) < 4090+extra {
		k := []byte{'k', byte('a' + i%26), byte('a' + (i/26)%26), byte('0' + i%10), 'x'}
		if i%97 == 0 {
			sym := textKey("sym"+string(rune('a'+i/97)), 1)
			k[4] = sym[0]
		}
		keys = append(keys, k)
		line = append(append(line, ' '), k...)
		i++
	}
	line = append(line, '\r', '\n')
	b := textIntent("b.", tSet, 1, 1, 1)
	stream := append(append([]byte(nil), line...), b.Bytes...)
	cl := &Client{In: stream, EOF: false}
	if c := rt.Choice("cut", 3); c > 0 {
		cl.Cuts = []int{[]int{0, 4096, len(line) - 1}[c]}
	}
	rd := bufio.NewReader(cl)
	ps := textprot.NewTextParser(rd)
	r1, t1, _, e1 := ps.Parse()
	rt.Reach("first-parsed")
	a := &Intent{Type: common.RequestGet, Keys: keys}
	checkDecoded("c07-text-long", a, r1, t1, e1, true)
	rt.Assert("c07-text-consumed-exactly", cl.Consumed()-rd.Buffered() == len(line))
	r2, t2, _, e2 := ps.Parse()
	rt.Reach("second-parsed")
	checkDecoded("c07-text", b, r2, t2, e2, true)
	rt.Assert("c07-text-consumed-all", cl.Consumed() == len(stream) && rd.Buffered() == 0)
}
