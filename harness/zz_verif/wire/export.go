package wire

// Exported names for the orchestrator-level harnesses (package orcah).

const (
	KSet       = kSet
	KSetQ      = kSetQ
	KAdd       = kAdd
	KAddQ      = kAddQ
	KReplace   = kReplace
	KReplaceQ  = kReplaceQ
	KAppend    = kAppend
	KAppendQ   = kAppendQ
	KPrepend   = kPrepend
	KPrependQ  = kPrependQ
	KGet       = kGet
	KGetQGet   = kGetQGet
	KGetQNoop  = kGetQNoop
	KGetQ2Noop = kGetQ2Noop
	KGetE      = kGetE
	KGetEQNoop = kGetEQNoop
	KGat       = kGat
	KDelete    = kDelete
	KTouch     = kTouch
	KNoop      = kNoop
	KVersion   = kVersion
	KQuit      = kQuit
	KQuitQ     = kQuitQ

	TSet      = tSet
	TAdd      = tAdd
	TReplace  = tReplace
	TAppend   = tAppend
	TPrepend  = tPrepend
	TGet1     = tGet1
	TGet2     = tGet2
	TGet3     = tGet3
	TDelete   = tDelete
	TTouch    = tTouch
	TNoop     = tNoop
	TVersion  = tVersion
	TQuit     = tQuit
	TUnknown  = tUnknown
	TBadTouch = tBadTouch
)

func BinIntent(p string, kind, keyLen, dataLen int) *Intent { return binIntent(p, kind, keyLen, dataLen) }
func TextIntent(p string, kind, keyLen, dataLen, digits int) *Intent {
	return textIntent(p, kind, keyLen, dataLen, digits)
}

// Opaques0 is the opaque of a single-key / key-less request (0 in the text protocol).
func (it *Intent) Opaques0() uint32 {
	if len(it.Opaques) == 0 {
		return 0
	}
	return it.Opaques[0]
}
