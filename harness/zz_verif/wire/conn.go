// Package wire holds the client-side fakes and the wire-level harnesses (C07, C08, C11):
// a scripted client connection, strict independent encoders/decoders for the memcached
// binary and text protocols, and the harness functions that drive the real parsers,
// responders and server loop.
package wire

import (
	"errors"
	"io"

	"github.com/netflix/rend/zz_verif/rt"
)

// Client is the client end of a connection as the server sees it: a scripted byte stream
// (optionally delivered in segments), then either EOF (client went away) or a blocking read
// (client is waiting for its reply), and a capture of everything the server wrote.
type Client struct {
	In       []byte
	pos      int
	Cuts     []int // deliver at most up to these absolute offsets per Read (segmentation)
	EOF      bool  // after the script: EOF (true) or "client waits" (false)
	Out      []byte
	Closed   int
	Blocked  int // reads attempted after the script ended while the client waits
	Reads    int
	EOFReads int
	MaxRead  int // when > 0, a read delivers at most this many bytes
	MaxDepth, MinDepth int // call-stack depth seen at the reads (a parser must not recurse per input line)
}

// ErrWouldBlock is what a read returns when the client has sent everything and is waiting:
// on a real socket the server would block here for ever.
var ErrWouldBlock = errors.New("wire: client is waiting for a reply (read would block for ever)")

func (c *Client) Read(p []byte) (int, error) {
	c.Reads++
	if d := rt.StackDepth(); d > c.MaxDepth {
		c.MaxDepth = d
	}
	if c.MinDepth == 0 || rt.StackDepth() < c.MinDepth {
		c.MinDepth = rt.StackDepth()
	}
	if c.Closed > 0 {
		return 0, io.ErrClosedPipe
	}
	if c.pos >= len(c.In) {
		if c.EOF {
			// a server that keeps reading a connection the client has closed is spinning
			c.EOFReads++
			if c.EOFReads > 64 {
				rt.Fail("c11-keeps-reading-after-the-client-is-gone", "more than 64 reads after EOF")
				rt.Stop()
			}
			return 0, io.EOF
		}
		c.Blocked++
		return 0, ErrWouldBlock
	}
	end := len(c.In)
	for _, cut := range c.Cuts {
		if cut > c.pos && cut < end {
			end = cut
		}
	}
	if c.MaxRead > 0 && end-c.pos > c.MaxRead {
		end = c.pos + c.MaxRead
	}
	n := copy(p, c.In[c.pos:end])
	c.pos += n
	return n, nil
}

func (c *Client) Write(p []byte) (int, error) {
	if c.Closed > 0 {
		return 0, io.ErrClosedPipe
	}
	c.Out = append(c.Out, p...)
	return len(p), nil
}

func (c *Client) Close() error {
	c.Closed++
	return nil
}

// Consumed is the number of script bytes the server has taken from the socket.
func (c *Client) Consumed() int { return c.pos }

type Closer struct{ N int }

func (c *Closer) Close() error { c.N++; return nil }
