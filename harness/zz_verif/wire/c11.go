package wire

import (
	"bufio"
	"encoding/binary"
	"io"

	"github.com/netflix/rend/orcas"
	"github.com/netflix/rend/protocol/binprot"
	"github.com/netflix/rend/protocol/textprot"
	"github.com/netflix/rend/server"
	"github.com/netflix/rend/zz_verif/model"
	"github.com/netflix/rend/zz_verif/rt"
)

const c11Body = 23 // bytes following the header that the client sends at most

// ZZBinaryHeader (C11): an arbitrary binary request header (every opcode, key length, extras
// length, total body length, opaque) followed by the body bytes the client believes it is
// sending; then the client waits. The server loop must end without crashing or spinning;
// what it allocates is bounded by a constant plus what the frame consistently declares; a
// frame whose total body is shorter than key+extras is rejected without allocating for, or
// waiting for, the bogus lengths.
func ZZBinaryHeader() {
	hdr := make([]byte, 24)
	hdr[0] = 0x80
	if rt.Param("anymagic", 0) == 1 {
		hdr[0] = rt.U8("magic")
	}
	hdr[1] = rt.U8("opcode")
	keyLen := rt.U16("keylen")
	extLen := rt.U8("extlen")
	total := rt.U32("total")
	opaque := rt.U32("opaque")
	binary.BigEndian.PutUint16(hdr[2:4], keyLen)
	hdr[4] = extLen
	hdr[5] = rt.U8("datatype")
	binary.BigEndian.PutUint16(hdr[6:8], rt.U16("vbucket"))
	binary.BigEndian.PutUint32(hdr[8:12], total)
	binary.BigEndian.PutUint32(hdr[12:16], opaque)
	copy(hdr[16:], rt.Bytes("cas", 8))

	consistent := uint32(keyLen)+uint32(extLen) <= total
	// bound: consistent frames declare at most c11Body body bytes; contradictory frames are all covered
	rt.Assume(rt.Or(rt.Not(consistent), total <= c11Body))
	sent := rt.IteU32(total <= c11Body, total, c11Body)
	nbody := int(rt.FixU64(uint64(sent)))
	body := rt.Bytes("body", nbody)

	cl := &Client{In: append(hdr, body...), EOF: false}
	h1 := model.NewHandler(&model.Store{}, 1700000000)
	rec := &model.Rec{}
	closers := []*Closer{{}, {}}
	rd := bufio.NewReader(cl)
	s := server.Default([]io.Closer{cl, closers[0], closers[1]}, binprot.NewBinaryParser(rd), orcas.L1Only(h1, nil, rec))

	declared := rt.IteU64(consistent, uint64(total)-uint64(extLen), 0)
	rt.AllocBudget(128 + declared)
	s.Loop()
	rt.AllocBudgetOff()
	rt.Reach("loop-returned")

	rt.Assert("c11-connection-closed-once", cl.Closed == 1 && closers[0].N == 1 && closers[1].N == 1)
	if !consistent {
		// rejected straight after the header: nothing of the bogus lengths was waited for
		rt.Reach("contradictory-frame")
		rt.Assert("c11-contradictory-frame-not-waited-for", cl.Blocked == 0)
		rt.Assert("c11-contradictory-frame-not-executed", len(h1.Log) == 0)
	}
}

// ZZTextLine (C11): an arbitrary line of bytes on the text protocol, then EOF: no crash, the
// loop ends, the connection is closed exactly once.
func ZZTextLine() {
	n := rt.Param("len", 6)
	line := rt.Bytes("line", n)
	for _, b := range line {
		rt.Assume(b < 0x80) // bound: command-line bytes are ASCII (data blocks are unconstrained: C07)
	}
	in := append(append([]byte(nil), line...), []byte("\r\n")...)
	cl := &Client{In: in, EOF: true}
	h1 := model.NewHandler(&model.Store{}, 1700000000)
	closers := []*Closer{{}, {}}
	rd := bufio.NewReader(cl)
	wr := bufio.NewWriter(cl)
	s := server.Default([]io.Closer{cl, closers[0], closers[1]}, textprot.NewTextParser(rd), orcas.L1Only(h1, nil, textprot.NewTextResponder(wr)))
	s.Loop()
	rt.Reach("loop-returned")
	rt.Assert("c11-connection-closed-once", cl.Closed == 1 && closers[0].N == 1 && closers[1].N == 1)
}

// ZZTextTruncatedSet (C11): a storage command whose stream ends (client gone) at any point
// from the end of the command line to the end of the trailing CRLF of the data block, or
// whose trailer bytes are arbitrary: the loop ends, no spinning, connection closed once.
func ZZTextTruncatedSet() {
	words := []string{"set", "add", "replace", "append", "prepend"}
	word := words[rt.Choice("word", len(words))]
	n := rt.Param("datalen", 2)
	data := rt.Bytes("data", n)
	trailer := rt.Bytes("trailer", 2) // arbitrary bytes where CRLF belongs
	full := append([]byte(word+" k 0 0 "+string(rune('0'+n))+"\r\n"), data...)
	full = append(full, trailer...)
	lineEnd := len(word) + len(" k 0 0 0\r\n")
	cut := lineEnd + rt.Choice("cut", len(full)-lineEnd+1)
	cl := &Client{In: full[:cut], EOF: true}
	h1 := model.NewHandler(&model.Store{}, 1700000000)
	closers := []*Closer{{}, {}}
	rd := bufio.NewReader(cl)
	wr := bufio.NewWriter(cl)
	s := server.Default([]io.Closer{cl, closers[0], closers[1]}, textprot.NewTextParser(rd), orcas.L1Only(h1, nil, textprot.NewTextResponder(wr)))
	s.Loop()
	rt.Reach("loop-returned")
	rt.Assert("c11-connection-closed-once", cl.Closed == 1 && closers[0].N == 1 && closers[1].N == 1)
	rt.Assert("c11-few-reads-after-eof", cl.EOFReads <= 4)
}

// ZZTextManyLines (C11): many short lines (empty, blank, unknown words) in a row: each is
// answered or ignored in constant stack space -- the parser does not nest one call per line.
func ZZTextManyLines() {
	n := rt.Param("lines", 200)
	line := [][]byte{[]byte("\r\n"), []byte(" \r\n"), []byte("x\r\n"), []byte("\n")}[rt.Choice("line", 4)]
	var in []byte
	for i := 0; i < n; i++ {
		in = append(in, line...)
	}
	in = append(in, []byte("version\r\n")...)
	cl := &Client{In: in, EOF: true, MaxRead: 16} // the lines trickle in: the socket is read while they are being parsed
	h1 := model.NewHandler(&model.Store{}, 1700000000)
	closers := []*Closer{{}, {}}
	rd := bufio.NewReader(cl)
	wr := bufio.NewWriter(cl)
	s := server.Default([]io.Closer{cl, closers[0], closers[1]}, textprot.NewTextParser(rd), orcas.L1Only(h1, nil, textprot.NewTextResponder(wr)))
	s.Loop()
	rt.Reach("loop-returned")
	rt.Assert("c11-connection-closed-once", cl.Closed == 1 && closers[0].N == 1 && closers[1].N == 1)
	rt.Assert("c11-constant-stack-per-input-line", cl.MaxDepth-cl.MinDepth < 20)
	rs, ok := DecodeText(cl.Out)
	rt.Assert("c11-last-command-still-answered", ok && len(rs) > 0 && len(rs[len(rs)-1].Line) > 7 && rs[len(rs)-1].Line[:7] == "VERSION")
}

// ZZBinaryTruncated (C11): a well-formed binary request (or quiet-get batch) whose stream ends
// -- the client goes away -- at an arbitrary byte offset: the loop ends, the connection is
// closed once, nothing crashes, nothing is read again and again, and no pooled object is
// returned to its pool twice on the way out (the engine reports that as a structural breach).
func ZZBinaryTruncated() {
	kinds := []int{kSet, kGetQNoop, kGetQ2Noop, kGetQGet, kGet, kGetEQNoop, kGat, kDelete, kTouch, kAppend}
	a := binIntent("a.", kinds[rt.Choice("kind", len(kinds))], 2, 2)
	cut := rt.Choice("cut", len(a.Bytes))
	cl := &Client{In: a.Bytes[:cut], EOF: true}
	h1 := model.NewHandler(&model.Store{}, 1700000000)
	rec := &model.Rec{}
	closers := []*Closer{{}, {}}
	rd := bufio.NewReader(cl)
	s := server.Default([]io.Closer{cl, closers[0], closers[1]}, binprot.NewBinaryParser(rd), orcas.L1Only(h1, nil, rec))
	s.Loop()
	rt.Reach("loop-returned")
	rt.Assert("c11-connection-closed-once", cl.Closed == 1 && closers[0].N == 1 && closers[1].N == 1)
	rt.Assert("c11-truncated-request-not-executed", len(h1.Log) == 0)
	// afterwards the parser serves other connections normally
	b := binIntent("b.", kSet, 1, 1)
	cl2 := &Client{In: b.Bytes, EOF: true}
	ps := binprot.NewBinaryParser(bufio.NewReader(cl2))
	r2, t2, _, e2 := ps.Parse()
	checkDecoded("c11-next-connection", b, r2, t2, e2, false)
}
