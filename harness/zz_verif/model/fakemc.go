package model

import (
	"encoding/binary"
	"errors"
	"io"

	"github.com/netflix/rend/zz_verif/rt"
)

// MC is an in-process memcached speaking the binary protocol over an io.ReadWriteCloser, for
// the subset rend's backend handlers use (A6). It is synchronous: a Write that completes a
// request produces the reply bytes at once; a Read with nothing pending means the handler is
// waiting for a reply that will never come.
type MC struct {
	*MCStore
	in     []byte
	out    []byte
	Closed int
	Writes int // number of Write calls (flush granularity)

	// fault injection: request number FaultAt (0-based) is answered according to FaultKind
	FaultAt     int
	FaultKind   int    // see Fault* constants
	FaultStatus uint16 // status for FaultStatusReply
	CutAt       int    // FaultCutReply: number of reply bytes delivered before the close
	broken      bool   // connection closed by the fault
	FaultedOp   uint8  // opcode of the request that was faulted
	Faulted     bool
	reqs        int

	// MaxRead > 0 limits the bytes returned by one Read (segmentation)
	MaxRead int

	Starved  int // reads with nothing pending on an open connection
	EOFReads int
	Name     string
}

const (
	FaultNone = iota
	FaultStatusReply
	FaultCloseBeforeReply
	FaultCloseAfterReply
	FaultCutReply
)

// MCStore is the server side shared by every connection to one backend: the items and the
// request log.
type MCStore struct {
	Items map[string]*Item
	Order []string // insertion order of keys ever stored (deterministic iteration)
	Now   int64
	Log   []MCReq
}

// NewConn opens another connection to the same backend (same items, fresh stream state, no
// fault injected).
func (m *MC) NewConn(name string) *MC {
	return &MC{MCStore: m.MCStore, FaultAt: -1, Name: name}
}

// Item is one stored entry.
type Item struct {
	Present  bool
	Data     []byte
	Flags    uint32
	Deadline int64
	TTL      uint32 // TTL of the last request that set the expiry (observation for C09)
	Sets     int    // number of times the entry was (re)written
}

// MCReq is one request as seen by the backend.
type MCReq struct {
	Op      uint8
	Key     string
	TTL     uint32
	Flags   uint32
	DataLen int
	Opaque  uint32
}

var ErrStarved = errors.New("fakemc: read with no reply pending")

func NewMC(name string, now int64) *MC {
	return &MC{MCStore: &MCStore{Items: map[string]*Item{}, Now: now}, FaultAt: -1, Name: name}
}

// Opcodes (memcached binary protocol + rend's gete extension).
const (
	opGet       = 0x00
	opSet       = 0x01
	opAdd       = 0x02
	opReplace   = 0x03
	opDelete    = 0x04
	opGetQ      = 0x09
	opNoop      = 0x0a
	opAppend    = 0x0e
	opPrepend   = 0x0f
	opSetQ      = 0x11
	opTouch     = 0x1c
	opGat       = 0x1d
	opGatQ      = 0x1e
	opGetE      = 0x40
	opGetEQ     = 0x41
	stOK        = 0x00
	stEnoent    = 0x01
	stExists    = 0x02
	stNotStored = 0x05
	stUnknown   = 0x81
)

func (m *MC) item(key string) *Item {
	it := m.Items[key]
	if it == nil {
		return nil
	}
	return it
}

// live reports whether key is readable now; an entry whose presence is symbolic forks here,
// exactly where a real backend would hit or miss.
func (m *MC) live(key string) *Item {
	it := m.item(key)
	if it == nil {
		return nil
	}
	if !rt.And(it.Present, Live(it.Deadline, m.Now)) {
		return nil
	}
	return it
}

func (m *MC) put(key string, data []byte, flags, ttl uint32) {
	it := m.Items[key]
	if it == nil {
		it = &Item{}
		m.Items[key] = it
		m.Order = append(m.Order, key)
	}
	d := Deadline(ttl, m.Now)
	it.Present = Live(d, m.Now)
	it.Data = cp(data)
	it.Flags = flags
	it.Deadline = d
	it.TTL = ttl
	it.Sets++
}

// Put stores an entry directly (harness set-up).
func (m *MC) Put(key string, present bool, data []byte, flags uint32, deadline int64) {
	it := &Item{Present: present, Data: cp(data), Flags: flags, Deadline: deadline}
	if m.Items[key] == nil {
		m.Order = append(m.Order, key)
	}
	m.Items[key] = it
}

func (m *MC) reply(op uint8, status uint16, opaque uint32, extras, key, body []byte) []byte {
	total := len(extras) + len(key) + len(body)
	h := make([]byte, 24, 24+total)
	h[0] = 0x81
	h[1] = op
	binary.BigEndian.PutUint16(h[2:4], uint16(len(key)))
	h[4] = uint8(len(extras))
	binary.BigEndian.PutUint16(h[6:8], status)
	binary.BigEndian.PutUint32(h[8:12], uint32(total))
	binary.BigEndian.PutUint32(h[12:16], opaque)
	h = append(h, extras...)
	h = append(h, key...)
	h = append(h, body...)
	return h
}

func u32(v uint32) []byte {
	b := make([]byte, 4)
	binary.BigEndian.PutUint32(b, v)
	return b
}

func errBody(status uint16) []byte {
	switch status {
	case stEnoent:
		return []byte("Not found")
	case stExists:
		return []byte("Data exists for key.")
	case stNotStored:
		return []byte("Not stored.")
	case stUnknown:
		return []byte("Unknown command")
	}
	return []byte("Error")
}

func quiet(op uint8) bool { return op == opGetQ || op == opGatQ || op == opGetEQ || op == opSetQ }

// handle executes one complete request and returns the reply bytes (nil for a silent one).
func (m *MC) handle(op uint8, opaque uint32, extras, keyb, body []byte) []byte {
	key := string(keyb)
	rq := MCReq{Op: op, Key: key, DataLen: len(body), Opaque: opaque}
	switch op {
	case opSet, opAdd, opReplace, opSetQ:
		if len(extras) == 8 {
			rq.Flags = binary.BigEndian.Uint32(extras[0:4])
			rq.TTL = binary.BigEndian.Uint32(extras[4:8])
		}
	case opTouch, opGat, opGatQ:
		if len(extras) == 4 {
			rq.TTL = binary.BigEndian.Uint32(extras[0:4])
		}
	}
	m.Log = append(m.Log, rq)
	fail := func(st uint16) []byte { return m.reply(op, st, opaque, nil, nil, errBody(st)) }
	switch op {
	case opNoop:
		return m.reply(op, stOK, opaque, nil, nil, nil)
	case opSet, opSetQ:
		m.put(key, body, rq.Flags, rq.TTL)
		if op == opSetQ {
			return nil
		}
		return m.reply(op, stOK, opaque, nil, nil, nil)
	case opAdd:
		if m.live(key) != nil {
			return fail(stExists)
		}
		m.put(key, body, rq.Flags, rq.TTL)
		return m.reply(op, stOK, opaque, nil, nil, nil)
	case opReplace:
		if m.live(key) == nil {
			return fail(stEnoent)
		}
		m.put(key, body, rq.Flags, rq.TTL)
		return m.reply(op, stOK, opaque, nil, nil, nil)
	case opAppend, opPrepend:
		it := m.live(key)
		if it == nil {
			return fail(stNotStored)
		}
		if op == opAppend {
			it.Data = append(cp(it.Data), body...)
		} else {
			it.Data = append(cp(body), it.Data...)
		}
		it.Sets++
		return m.reply(op, stOK, opaque, nil, nil, nil)
	case opDelete:
		it := m.live(key)
		if it == nil {
			return fail(stEnoent)
		}
		it.Present = false
		return m.reply(op, stOK, opaque, nil, nil, nil)
	case opTouch:
		it := m.live(key)
		if it == nil {
			return fail(stEnoent)
		}
		m.touch(it, rq.TTL)
		return m.reply(op, stOK, opaque, u32(it.Flags), nil, nil)
	case opGet, opGetQ, opGat, opGatQ, opGetE, opGetEQ:
		it := m.live(key)
		if it == nil {
			if quiet(op) {
				return nil
			}
			return fail(stEnoent)
		}
		data := cp(it.Data)
		extras := u32(it.Flags)
		if op == opGetE || op == opGetEQ {
			extras = append(extras, u32(rt.IteU32(it.Deadline == 0, 0, uint32(it.Deadline-m.Now)))...)
		}
		if op == opGat || op == opGatQ {
			m.touch(it, rq.TTL)
		}
		return m.reply(op, stOK, opaque, extras, nil, data)
	}
	return fail(stUnknown)
}

func (m *MC) touch(it *Item, ttl uint32) {
	d := Deadline(ttl, m.Now)
	it.Deadline = d
	it.Present = Live(d, m.Now)
	it.TTL = ttl
}

// Write accepts request bytes and executes every request that is complete.
func (m *MC) Write(p []byte) (int, error) {
	m.Writes++
	if m.Closed > 0 || m.broken {
		return 0, io.ErrClosedPipe
	}
	m.in = append(m.in, p...)
	for len(m.in) >= 24 {
		h := m.in
		if h[0] != 0x80 {
			panic("fakemc: bad request magic")
		}
		op := h[1]
		kl := int(binary.BigEndian.Uint16(h[2:4]))
		el := int(h[4])
		total := int(binary.BigEndian.Uint32(h[8:12]))
		opaque := binary.BigEndian.Uint32(h[12:16])
		if total < kl+el {
			panic("fakemc: inconsistent request lengths")
		}
		if len(m.in) < 24+total {
			break
		}
		extras := m.in[24 : 24+el]
		key := m.in[24+el : 24+el+kl]
		body := m.in[24+el+kl : 24+total]
		n := m.reqs
		m.reqs++
		var rep []byte
		if n == m.FaultAt && m.FaultKind != FaultNone {
			m.FaultedOp, m.Faulted = op, true
			switch m.FaultKind {
			case FaultStatusReply:
				m.Log = append(m.Log, MCReq{Op: op, Key: string(key), DataLen: len(body), Opaque: opaque})
				rep = m.reply(op, m.FaultStatus, opaque, nil, nil, errBody(m.FaultStatus))
			case FaultCloseBeforeReply:
				m.broken = true
			case FaultCloseAfterReply:
				rep = m.handle(op, opaque, extras, key, body)
				m.broken = true
			case FaultCutReply:
				rep = m.handle(op, opaque, extras, key, body)
				if m.CutAt < len(rep) {
					rep = rep[:m.CutAt]
				}
				m.broken = true
			}
		} else {
			rep = m.handle(op, opaque, extras, key, body)
		}
		m.out = append(m.out, rep...)
		m.in = append([]byte(nil), m.in[24+total:]...)
		if m.broken {
			m.in = nil
			break
		}
	}
	return len(p), nil
}

// Read delivers pending reply bytes.
func (m *MC) Read(p []byte) (int, error) {
	if len(m.out) == 0 {
		if m.broken || m.Closed > 0 {
			// a handler that keeps reading a connection that is gone is spinning
			m.EOFReads++
			if m.EOFReads > 64 {
				rt.Fail("c10-keeps-reading-a-broken-backend-connection", "more than 64 reads after the backend connection was closed")
				rt.Stop()
			}
			return 0, io.EOF
		}
		m.Starved++
		return 0, ErrStarved
	}
	n := len(p)
	if m.MaxRead > 0 && n > m.MaxRead {
		n = m.MaxRead
	}
	n = copy(p[:n], m.out)
	m.out = append([]byte(nil), m.out[n:]...)
	return n, nil
}

func (m *MC) Close() error {
	m.Closed++
	return nil
}

// Pending reports unread reply bytes and unparsed request bytes (a drained, in-sync
// connection has neither).
func (m *MC) Pending() (int, int) { return len(m.out), len(m.in) }

// Broken reports whether the connection was closed by an injected fault or by Close.
func (m *MC) Broken() bool { return m.broken || m.Closed > 0 }

// Requests returns the number of requests executed.
func (m *MC) Requests() int { return m.reqs }
