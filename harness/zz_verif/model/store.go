// Package model holds the reference models used as oracles by the harnesses: a
// memcached-style map (Store), a handlers.Handler implemented directly on it (Handler), and a
// recording protocol.Responder (Rec). They are written fork-free where the data is symbolic
// (rt.Ite* selects), so that the number of paths of a harness is determined by the branching
// of the implementation under test.
package model

import (
	"github.com/netflix/rend/common"
	"github.com/netflix/rend/zz_verif/rt"
)

// Keys is the concrete key alphabet; map keys stay concrete on every path.
var Keys = [][]byte{[]byte("a"), []byte("bb"), []byte("ccc")}

const Month = 60 * 60 * 24 * 30

// Entry is one slot of the reference map. Deadline 0 = never expires; otherwise the entry
// is readable while now < Deadline.
type Entry struct {
	Present  bool
	Data     []byte
	Flags    uint32
	Deadline int64
}

// Store is a memcached-style map over the key alphabet.
type Store struct {
	E    [3]Entry
	Name string
}

// KeyIndex returns the index of key in the alphabet (-1 if foreign).
func KeyIndex(key []byte) int {
	for i, k := range Keys {
		if string(k) == string(key) {
			return i
		}
	}
	return -1
}

// Deadline computes the absolute expiry for a TTL given at instant now (memcached rule):
// 0 = never, up to 30 days relative, above that an absolute unix time.
func Deadline(ttl uint32, now int64) int64 {
	rel := now + int64(ttl)
	abs := int64(ttl)
	d := rt.IteI64(ttl <= Month, rel, abs)
	return rt.IteI64(ttl == 0, 0, d)
}

// Live says whether an entry with that deadline is readable at now.
func Live(deadline, now int64) bool {
	return rt.Or(deadline == 0, deadline > now)
}

// SymbolicEntry fills slot i with an arbitrary live entry (or absence) of dataLen bytes.
func (s *Store) SymbolicEntry(i int, name string, dataLen int, now int64) {
	e := &s.E[i]
	e.Present = rt.Bool(name + ".present")
	e.Data = rt.Bytes(name+".data", dataLen)
	e.Flags = rt.U32(name + ".flags")
	e.Deadline = rt.I64(name + ".deadline")
	// representation invariant: deadline is 0 or in the future, and below 2^33 (unix seconds)
	rt.Assume(rt.Or(e.Deadline == 0, rt.And(e.Deadline > now, e.Deadline < 1<<32)))
}

func cp(b []byte) []byte { return append([]byte(nil), b...) }

// Clone returns a deep copy.
func (s *Store) Clone(name string) *Store {
	c := &Store{Name: name}
	for i := range s.E {
		c.E[i] = s.E[i]
		c.E[i].Data = cp(s.E[i].Data)
	}
	return c
}

// Result classes of a command (error codes are deliberately not compared, only classes).
const (
	OK       = 0
	NotFound = 1 // key missing (delete/touch/replace/append/prepend on missing)
	Exists   = 2 // add on existing
	Miss     = 3
	Hit      = 4
	Fault    = 5 // non-application error
)

// ClassOf maps a handler/orca error to a result class for a given command kind.
func ClassOf(err error) int {
	switch err {
	case nil:
		return OK
	case common.ErrKeyNotFound, common.ErrItemNotStored:
		return NotFound
	case common.ErrKeyExists:
		return Exists
	}
	if common.IsAppError(err) {
		return NotFound + 10
	}
	return Fault
}

func (s *Store) put(i int, data []byte, flags uint32, ttl uint32, now int64) {
	d := Deadline(ttl, now)
	e := &s.E[i]
	e.Present = Live(d, now)
	e.Data = cp(data)
	e.Flags = flags
	e.Deadline = d
}

// Set stores unconditionally.
func (s *Store) Set(i int, data []byte, flags, ttl uint32, now int64) int {
	s.put(i, data, flags, ttl, now)
	return OK
}

// The conditional commands below branch on presence: the caller decides whether that is a
// concrete fact on the path (implementation already branched on it) or forks here.
func (s *Store) Add(i int, data []byte, flags, ttl uint32, now int64) int {
	if s.E[i].Present {
		return Exists
	}
	s.put(i, data, flags, ttl, now)
	return OK
}

func (s *Store) Replace(i int, data []byte, flags, ttl uint32, now int64) int {
	if !s.E[i].Present {
		return NotFound
	}
	s.put(i, data, flags, ttl, now)
	return OK
}

func (s *Store) Append(i int, data []byte) int {
	e := &s.E[i]
	if !e.Present {
		return NotFound
	}
	e.Data = append(cp(e.Data), data...)
	return OK
}

func (s *Store) Prepend(i int, data []byte) int {
	e := &s.E[i]
	if !e.Present {
		return NotFound
	}
	e.Data = append(cp(data), e.Data...)
	return OK
}

func (s *Store) Delete(i int) int {
	e := &s.E[i]
	if !e.Present {
		return NotFound
	}
	e.Present = false
	return OK
}

func (s *Store) Touch(i int, ttl uint32, now int64) int {
	e := &s.E[i]
	if !e.Present {
		return NotFound
	}
	d := Deadline(ttl, now)
	e.Deadline = d
	e.Present = Live(d, now)
	return OK
}

// Get returns (hit, data, flags).
func (s *Store) Get(i int) (bool, []byte, uint32) {
	e := &s.E[i]
	if !e.Present {
		return false, nil, 0
	}
	return true, e.Data, e.Flags
}

// Remaining is the TTL a gete reports: 0 for "never", else seconds left.
func (s *Store) Remaining(i int, now int64) uint32 {
	e := &s.E[i]
	return rt.IteU32(e.Deadline == 0, 0, uint32(e.Deadline-now))
}

// EqEntry is the fork-free equality of two slots (absent entries are equal whatever they hold).
func EqEntry(a, b *Entry, withDeadline bool) bool {
	if len(a.Data) != len(b.Data) {
		return rt.And(rt.Not(a.Present), rt.Not(b.Present))
	}
	same := rt.And(rt.BytesEq(a.Data, b.Data), a.Flags == b.Flags)
	if withDeadline {
		same = rt.And(same, a.Deadline == b.Deadline)
	}
	return rt.Or(rt.And(rt.Not(a.Present), rt.Not(b.Present)), rt.And(rt.And(a.Present, b.Present), same))
}
