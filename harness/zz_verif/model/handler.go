package model

import (
	"errors"

	"github.com/netflix/rend/common"
	"github.com/netflix/rend/zz_verif/rt"
)

// Call is one entry of a model handler's call log.
type Call struct {
	Op  string
	Key int
	TTL uint32
}

// Handler implements handlers.Handler directly on a Store (no wire). Every method is a
// scheduling point (rt.Yield) and can be made to fail or panic at a chosen call index.
type Handler struct {
	S      *Store
	Now    int64
	Log    []Call
	Closed int

	// fault injection: the FailAt-th call (0-based) returns FailErr (or panics if Panic)
	FailAt  int
	FailErr error
	Panic   bool
	calls   int
}

var ErrIO = errors.New("model: injected I/O error")

func NewHandler(s *Store, now int64) *Handler {
	return &Handler{S: s, Now: now, FailAt: -1}
}

func (h *Handler) enter(op string, key []byte, ttl uint32) (int, error) {
	rt.Yield()
	i := KeyIndex(key)
	h.Log = append(h.Log, Call{Op: op, Key: i, TTL: ttl})
	n := h.calls
	h.calls++
	if n == h.FailAt {
		if h.Panic {
			panic("model: injected panic in " + op)
		}
		return i, h.FailErr
	}
	if i < 0 {
		panic("model: key outside the alphabet")
	}
	return i, nil
}

func classErr(c int, notFound error) error {
	switch c {
	case OK:
		return nil
	case Exists:
		return common.ErrKeyExists
	}
	return notFound
}

func (h *Handler) Set(cmd common.SetRequest) error {
	i, err := h.enter("set", cmd.Key, cmd.Exptime)
	if err != nil {
		return err
	}
	h.S.Set(i, cmd.Data, cmd.Flags, cmd.Exptime, h.Now)
	return nil
}

func (h *Handler) Add(cmd common.SetRequest) error {
	i, err := h.enter("add", cmd.Key, cmd.Exptime)
	if err != nil {
		return err
	}
	return classErr(h.S.Add(i, cmd.Data, cmd.Flags, cmd.Exptime, h.Now), nil)
}

func (h *Handler) Replace(cmd common.SetRequest) error {
	i, err := h.enter("replace", cmd.Key, cmd.Exptime)
	if err != nil {
		return err
	}
	return classErr(h.S.Replace(i, cmd.Data, cmd.Flags, cmd.Exptime, h.Now), common.ErrKeyNotFound)
}

func (h *Handler) Append(cmd common.SetRequest) error {
	i, err := h.enter("append", cmd.Key, cmd.Exptime)
	if err != nil {
		return err
	}
	return classErr(h.S.Append(i, cmd.Data), common.ErrItemNotStored)
}

func (h *Handler) Prepend(cmd common.SetRequest) error {
	i, err := h.enter("prepend", cmd.Key, cmd.Exptime)
	if err != nil {
		return err
	}
	return classErr(h.S.Prepend(i, cmd.Data), common.ErrItemNotStored)
}

func (h *Handler) Delete(cmd common.DeleteRequest) error {
	i, err := h.enter("delete", cmd.Key, 0)
	if err != nil {
		return err
	}
	return classErr(h.S.Delete(i), common.ErrKeyNotFound)
}

func (h *Handler) Touch(cmd common.TouchRequest) error {
	i, err := h.enter("touch", cmd.Key, cmd.Exptime)
	if err != nil {
		return err
	}
	return classErr(h.S.Touch(i, cmd.Exptime, h.Now), common.ErrKeyNotFound)
}

func (h *Handler) GAT(cmd common.GATRequest) (common.GetResponse, error) {
	i, err := h.enter("gat", cmd.Key, cmd.Exptime)
	if err != nil {
		return common.GetResponse{}, err
	}
	hit, data, flags := h.S.Get(i)
	if !hit {
		return common.GetResponse{Miss: true, Opaque: cmd.Opaque, Key: cmd.Key}, nil
	}
	data = cp(data)
	h.S.Touch(i, cmd.Exptime, h.Now)
	return common.GetResponse{Opaque: cmd.Opaque, Flags: flags, Key: cmd.Key, Data: data}, nil
}

// Get answers on buffered channels (no goroutine): one response per key, in order; on an
// injected fault the error is delivered after the responses produced so far.
func (h *Handler) Get(cmd common.GetRequest) (<-chan common.GetResponse, <-chan error) {
	out := make(chan common.GetResponse, len(cmd.Keys))
	errs := make(chan error, 1)
	for idx, key := range cmd.Keys {
		i, err := h.enter("get", key, 0)
		if err != nil {
			errs <- err
			break
		}
		hit, data, flags := h.S.Get(i)
		if !hit {
			out <- common.GetResponse{Miss: true, Quiet: cmd.Quiet[idx], Opaque: cmd.Opaques[idx], Key: key}
			continue
		}
		out <- common.GetResponse{Quiet: cmd.Quiet[idx], Opaque: cmd.Opaques[idx], Flags: flags, Key: key, Data: cp(data)}
	}
	close(out)
	close(errs)
	return out, errs
}

func (h *Handler) GetE(cmd common.GetRequest) (<-chan common.GetEResponse, <-chan error) {
	out := make(chan common.GetEResponse, len(cmd.Keys))
	errs := make(chan error, 1)
	for idx, key := range cmd.Keys {
		i, err := h.enter("gete", key, 0)
		if err != nil {
			errs <- err
			break
		}
		hit, data, flags := h.S.Get(i)
		if !hit {
			out <- common.GetEResponse{Miss: true, Quiet: cmd.Quiet[idx], Opaque: cmd.Opaques[idx], Key: key}
			continue
		}
		out <- common.GetEResponse{Quiet: cmd.Quiet[idx], Opaque: cmd.Opaques[idx], Flags: flags, Key: key, Data: cp(data),
			Exptime: h.S.Remaining(i, h.Now)}
	}
	close(out)
	close(errs)
	return out, errs
}

func (h *Handler) Close() error {
	h.Closed++
	return nil
}

// ---------------------------------------------------------------- recording responder

// Reply is one call made on the responder.
type Reply struct {
	Kind   string // set add replace append prepend get getend gete gat delete touch noop quit version stat error
	Opaque uint32
	Quiet  bool
	Miss   bool
	Key    int
	Data   []byte
	Flags  uint32
	TTL    uint32
	NoopEnd bool
	Err    error
	ReqType common.RequestType
}

// Rec implements protocol.Responder by recording.
type Rec struct {
	Log []Reply
	// fault injection: the PanicAt-th responder call (0-based) panics, or fails with FailErr
	// (a write error towards the client); -1 / zero value with HasFault false = none
	HasFault bool
	PanicAt  int
	FailErr  error
}

func (r *Rec) add(x Reply) error {
	if r.HasFault && len(r.Log) == r.PanicAt {
		r.Log = append(r.Log, x)
		if r.FailErr != nil {
			return r.FailErr
		}
		panic("model: injected panic in responder " + x.Kind)
	}
	r.Log = append(r.Log, x)
	return nil
}

func (r *Rec) Set(opaque uint32, quiet bool) error     { return r.add(Reply{Kind: "set", Opaque: opaque, Quiet: quiet}) }
func (r *Rec) Add(opaque uint32, quiet bool) error     { return r.add(Reply{Kind: "add", Opaque: opaque, Quiet: quiet}) }
func (r *Rec) Replace(opaque uint32, quiet bool) error { return r.add(Reply{Kind: "replace", Opaque: opaque, Quiet: quiet}) }
func (r *Rec) Append(opaque uint32, quiet bool) error  { return r.add(Reply{Kind: "append", Opaque: opaque, Quiet: quiet}) }
func (r *Rec) Prepend(opaque uint32, quiet bool) error { return r.add(Reply{Kind: "prepend", Opaque: opaque, Quiet: quiet}) }
func (r *Rec) Get(res common.GetResponse) error {
	return r.add(Reply{Kind: "get", Opaque: res.Opaque, Quiet: res.Quiet, Miss: res.Miss, Key: KeyIndex(res.Key), Data: res.Data, Flags: res.Flags})
}
func (r *Rec) GetEnd(opaque uint32, noopEnd bool) error {
	return r.add(Reply{Kind: "getend", Opaque: opaque, NoopEnd: noopEnd})
}
func (r *Rec) GetE(res common.GetEResponse) error {
	return r.add(Reply{Kind: "gete", Opaque: res.Opaque, Quiet: res.Quiet, Miss: res.Miss, Key: KeyIndex(res.Key), Data: res.Data, Flags: res.Flags, TTL: res.Exptime})
}
func (r *Rec) GAT(res common.GetResponse) error {
	return r.add(Reply{Kind: "gat", Opaque: res.Opaque, Quiet: res.Quiet, Miss: res.Miss, Key: KeyIndex(res.Key), Data: res.Data, Flags: res.Flags})
}
func (r *Rec) Delete(opaque uint32) error             { return r.add(Reply{Kind: "delete", Opaque: opaque}) }
func (r *Rec) Touch(opaque uint32) error              { return r.add(Reply{Kind: "touch", Opaque: opaque}) }
func (r *Rec) Noop(opaque uint32) error               { return r.add(Reply{Kind: "noop", Opaque: opaque}) }
func (r *Rec) Quit(opaque uint32, quiet bool) error   { return r.add(Reply{Kind: "quit", Opaque: opaque, Quiet: quiet}) }
func (r *Rec) Version(opaque uint32) error            { return r.add(Reply{Kind: "version", Opaque: opaque}) }
func (r *Rec) Stat(opaque uint32) error               { return r.add(Reply{Kind: "stat", Opaque: opaque}) }
func (r *Rec) Error(opaque uint32, reqType common.RequestType, err error, quiet bool) error {
	return r.add(Reply{Kind: "error", Opaque: opaque, Quiet: quiet, Err: err, ReqType: reqType})
}
