// Package smt is a small hash-consed term DAG over SMT-LIB2 bit-vectors, booleans and
// binary64 floating point, with constant folding on construction, a concrete evaluator
// (used to reuse models instead of asking the solver) and an SMT-LIB2 printer that names
// every shared node once (define-fun), so queries stay linear in the size of the DAG.
package smt

import (
	"fmt"
	"math"
	"math/bits"
)

type Sort uint8

const (
	SBool Sort = iota
	SBV
	SFP // binary64
)

type Op uint8

const (
	OConst Op = iota
	OVar
	// bit-vector
	OAdd
	OSub
	OMul
	OUDiv
	OURem
	OSDiv
	OSRem
	OAnd
	OOr
	OXor
	OShl
	OLShr
	OAShr
	ONot // bvnot
	ONeg
	OExtract // A=hi B=lo
	OZExt    // A=n
	OSExt    // A=n
	OConcat
	// predicates
	OEq
	OUlt
	OUle
	OSlt
	OSle
	// boolean
	OBNot
	OBAnd
	OBOr
	OIte
	// floating point (binary64)
	OFAdd
	OFSub
	OFMul
	OFDiv
	OFLt
	OFLe
	OFEq
	OFNeg
	OFFromS  // to_fp RNE signed bv
	OFFromU  // to_fp_unsigned RNE
	OFToS    // fp.to_sbv W RTZ
	OFToU    // fp.to_ubv W RTZ
	OFCeil   // roundToIntegral RTP
	OFFloor  // roundToIntegral RTN
	OFMin    // fp.min
	OFIsNaN  // fp.isNaN
	OFFromBV // reinterpret bits as float
	OUF      // uninterpreted function application, Name = function symbol
)

type Term struct {
	ID   int
	Op   Op
	Sort Sort
	W    int // bit width for SBV
	Args []*Term
	Val  uint64 // OConst: value (BV masked to W, Bool 0/1, FP bits)
	Name string // OVar / OUF
	A, B int
}

func (t *Term) IsConst() bool { return t.Op == OConst }
func (t *Term) IsTrue() bool  { return t.Op == OConst && t.Sort == SBool && t.Val == 1 }
func (t *Term) IsFalse() bool { return t.Op == OConst && t.Sort == SBool && t.Val == 0 }

type key struct {
	op         Op
	sort       Sort
	w          int
	a0, a1, a2 int
	val        uint64
	name       string
	a, b       int
}

// Ctx owns the terms of one path.
type Ctx struct {
	tab   map[key]*Term
	Terms []*Term // by ID
	Vars  []*Term
	UFs   map[string]*UFDecl
	varN  map[string]int
}

type UFDecl struct {
	Name string
	ArgW []int
	ResW int
}

func NewCtx() *Ctx {
	return &Ctx{tab: map[key]*Term{}, UFs: map[string]*UFDecl{}, varN: map[string]int{}}
}

func mask(w int) uint64 {
	if w >= 64 {
		return ^uint64(0)
	}
	return (uint64(1) << uint(w)) - 1
}

func (c *Ctx) mk(t Term) *Term {
	k := key{op: t.Op, sort: t.Sort, w: t.W, val: t.Val, name: t.Name, a: t.A, b: t.B, a0: -1, a1: -1, a2: -1}
	if len(t.Args) > 0 {
		k.a0 = t.Args[0].ID
	}
	if len(t.Args) > 1 {
		k.a1 = t.Args[1].ID
	}
	if len(t.Args) > 2 {
		k.a2 = t.Args[2].ID
	}
	if len(t.Args) > 3 {
		panic("smt: arity")
	}
	if r, ok := c.tab[k]; ok {
		return r
	}
	n := new(Term)
	*n = t
	n.ID = len(c.Terms)
	c.Terms = append(c.Terms, n)
	c.tab[k] = n
	return n
}

func (c *Ctx) BV(v uint64, w int) *Term {
	return c.mk(Term{Op: OConst, Sort: SBV, W: w, Val: v & mask(w)})
}
func (c *Ctx) Bool(b bool) *Term {
	v := uint64(0)
	if b {
		v = 1
	}
	return c.mk(Term{Op: OConst, Sort: SBool, Val: v})
}
func (c *Ctx) FP(f float64) *Term {
	return c.mk(Term{Op: OConst, Sort: SFP, W: 64, Val: math.Float64bits(f)})
}

// Var creates a fresh variable; the name is made unique by a per-name counter so that the
// n-th request for a name gets the same symbol on every re-execution of a path prefix.
func (c *Ctx) Var(name string, sort Sort, w int) *Term {
	n := c.varN[name]
	c.varN[name] = n + 1
	full := name
	if n > 0 {
		full = fmt.Sprintf("%s#%d", name, n)
	}
	t := c.mk(Term{Op: OVar, Sort: sort, W: w, Name: full})
	c.Vars = append(c.Vars, t)
	return t
}

func sext(v uint64, w int) int64 {
	if w >= 64 {
		return int64(v)
	}
	s := uint(64 - w)
	return int64(v<<s) >> s
}

// Bin builds a bit-vector binary operation (both operands of equal width).
func (c *Ctx) Bin(op Op, a, b *Term) *Term {
	if a.Sort != SBV || b.Sort != SBV || a.W != b.W {
		panic(fmt.Sprintf("smt.Bin: sorts %v/%d %v/%d op %d", a.Sort, a.W, b.Sort, b.W, op))
	}
	w := a.W
	if a.IsConst() && b.IsConst() {
		if v, ok := foldBin(op, a.Val, b.Val, w); ok {
			return c.BV(v, w)
		}
	}
	// light algebraic simplification
	switch op {
	case OAdd, OOr, OXor:
		if a.IsConst() && a.Val == 0 {
			return b
		}
		if b.IsConst() && b.Val == 0 {
			return a
		}
	case OSub, OShl, OLShr, OAShr:
		if b.IsConst() && b.Val == 0 {
			return a
		}
	case OAnd:
		if a.IsConst() && a.Val == 0 || b.IsConst() && b.Val == 0 {
			return c.BV(0, w)
		}
		if a.IsConst() && a.Val == mask(w) {
			return b
		}
		if b.IsConst() && b.Val == mask(w) {
			return a
		}
	case OMul:
		if a.IsConst() && a.Val == 1 {
			return b
		}
		if b.IsConst() && b.Val == 1 {
			return a
		}
		if a.IsConst() && a.Val == 0 || b.IsConst() && b.Val == 0 {
			return c.BV(0, w)
		}
	case OUDiv:
		if b.IsConst() && b.Val == 1 {
			return a
		}
	}
	switch op {
	case OAdd, OMul, OAnd, OOr, OXor: // commutative: canonical order
		if a.ID > b.ID {
			a, b = b, a
		}
	}
	return c.mk(Term{Op: op, Sort: SBV, W: w, Args: []*Term{a, b}})
}

func foldBin(op Op, x, y uint64, w int) (uint64, bool) {
	m := mask(w)
	switch op {
	case OAdd:
		return (x + y) & m, true
	case OSub:
		return (x - y) & m, true
	case OMul:
		return (x * y) & m, true
	case OUDiv:
		if y == 0 {
			return m, true
		}
		return x / y, true
	case OURem:
		if y == 0 {
			return x, true
		}
		return x % y, true
	case OSDiv:
		sx, sy := sext(x, w), sext(y, w)
		if sy == 0 {
			if sx < 0 {
				return 1, true
			}
			return m, true
		}
		if sy == -1 {
			return uint64(-sx) & m, true
		}
		return uint64(sx/sy) & m, true
	case OSRem:
		sx, sy := sext(x, w), sext(y, w)
		if sy == 0 {
			return x, true
		}
		if sy == -1 {
			return 0, true
		}
		return uint64(sx%sy) & m, true
	case OAnd:
		return x & y, true
	case OOr:
		return x | y, true
	case OXor:
		return x ^ y, true
	case OShl:
		if y >= uint64(w) {
			return 0, true
		}
		return (x << y) & m, true
	case OLShr:
		if y >= uint64(w) {
			return 0, true
		}
		return x >> y, true
	case OAShr:
		sx := sext(x, w)
		if y >= uint64(w) {
			y = uint64(w - 1)
			if w == 64 {
				y = 63
			}
		}
		return uint64(sx>>y) & m, true
	}
	return 0, false
}

func (c *Ctx) BVNot(a *Term) *Term {
	if a.IsConst() {
		return c.BV(^a.Val, a.W)
	}
	return c.mk(Term{Op: ONot, Sort: SBV, W: a.W, Args: []*Term{a}})
}
func (c *Ctx) BVNeg(a *Term) *Term {
	if a.IsConst() {
		return c.BV(-a.Val, a.W)
	}
	return c.mk(Term{Op: ONeg, Sort: SBV, W: a.W, Args: []*Term{a}})
}

func (c *Ctx) Extract(a *Term, hi, lo int) *Term {
	if lo == 0 && hi == a.W-1 {
		return a
	}
	if a.IsConst() {
		return c.BV(a.Val>>uint(lo), hi-lo+1)
	}
	// extract of zero/sign extension that stays inside the original
	if (a.Op == OZExt || a.Op == OSExt) && hi < a.Args[0].W {
		return c.Extract(a.Args[0], hi, lo)
	}
	if a.Op == OConcat {
		lw := a.Args[1].W
		if hi < lw {
			return c.Extract(a.Args[1], hi, lo)
		}
		if lo >= lw {
			return c.Extract(a.Args[0], hi-lw, lo-lw)
		}
	}
	return c.mk(Term{Op: OExtract, Sort: SBV, W: hi - lo + 1, Args: []*Term{a}, A: hi, B: lo})
}

func (c *Ctx) ZExt(a *Term, w int) *Term {
	if w == a.W {
		return a
	}
	if w < a.W {
		return c.Extract(a, w-1, 0)
	}
	if a.IsConst() {
		return c.BV(a.Val, w)
	}
	if a.Op == OZExt {
		return c.ZExt(a.Args[0], w)
	}
	return c.mk(Term{Op: OZExt, Sort: SBV, W: w, Args: []*Term{a}, A: w - a.W})
}

func (c *Ctx) SExt(a *Term, w int) *Term {
	if w == a.W {
		return a
	}
	if w < a.W {
		return c.Extract(a, w-1, 0)
	}
	if a.IsConst() {
		return c.BV(uint64(sext(a.Val, a.W)), w)
	}
	if a.Op == OZExt { // sign bit is zero
		return c.ZExt(a.Args[0], w)
	}
	return c.mk(Term{Op: OSExt, Sort: SBV, W: w, Args: []*Term{a}, A: w - a.W})
}

func (c *Ctx) Concat(hi, lo *Term) *Term {
	if hi.IsConst() && lo.IsConst() && hi.W+lo.W <= 64 {
		return c.BV(hi.Val<<uint(lo.W)|lo.Val, hi.W+lo.W)
	}
	return c.mk(Term{Op: OConcat, Sort: SBV, W: hi.W + lo.W, Args: []*Term{hi, lo}})
}

// Cmp builds a predicate over two bit-vectors (OEq also over bools / floats bitwise-equal is NOT used: use FCmp).
func (c *Ctx) Cmp(op Op, a, b *Term) *Term {
	if a.Sort != b.Sort || a.W != b.W {
		panic(fmt.Sprintf("smt.Cmp: sorts %v/%d %v/%d", a.Sort, a.W, b.Sort, b.W))
	}
	if op == OEq && a.Sort == SBool {
		if a.IsConst() {
			if a.Val == 1 {
				return b
			}
			return c.Not(b)
		}
		if b.IsConst() {
			if b.Val == 1 {
				return a
			}
			return c.Not(a)
		}
	}
	if a == b {
		switch op {
		case OEq, OUle, OSle:
			return c.Bool(true)
		case OUlt, OSlt:
			return c.Bool(false)
		}
	}
	if a.IsConst() && b.IsConst() && a.Sort != SFP {
		switch op {
		case OEq:
			return c.Bool(a.Val == b.Val)
		case OUlt:
			return c.Bool(a.Val < b.Val)
		case OUle:
			return c.Bool(a.Val <= b.Val)
		case OSlt:
			return c.Bool(sext(a.Val, a.W) < sext(b.Val, b.W))
		case OSle:
			return c.Bool(sext(a.Val, a.W) <= sext(b.Val, b.W))
		}
	}
	if a.Sort == SBV {
		// zero-extended value against a constant that does not fit: decided
		if op == OEq {
			if a.IsConst() {
				a, b = b, a
			}
			if b.IsConst() && a.Op == OZExt {
				iw := a.Args[0].W
				if b.Val > mask(iw) {
					return c.Bool(false)
				}
				return c.Cmp(OEq, a.Args[0], c.BV(b.Val, iw))
			}
			// ite(c, k1, k2) == k  with distinct constants
			if b.IsConst() && a.Op == OIte && a.Args[1].IsConst() && a.Args[2].IsConst() {
				t, e := a.Args[1].Val == b.Val, a.Args[2].Val == b.Val
				switch {
				case t && e:
					return c.Bool(true)
				case t:
					return a.Args[0]
				case e:
					return c.Not(a.Args[0])
				default:
					return c.Bool(false)
				}
			}
			if a.ID > b.ID {
				a, b = b, a
			}
		}
		if op == OUlt && b.IsConst() && b.Val == 0 {
			return c.Bool(false)
		}
		if op == OUle && a.IsConst() && a.Val == 0 {
			return c.Bool(true)
		}
		if (op == OUlt || op == OUle) && a.Op == OZExt && b.IsConst() && b.Val > mask(a.Args[0].W) {
			return c.Bool(true)
		}
	}
	return c.mk(Term{Op: op, Sort: SBool, Args: []*Term{a, b}})
}

func (c *Ctx) Not(a *Term) *Term {
	if a.IsConst() {
		return c.Bool(a.Val == 0)
	}
	if a.Op == OBNot {
		return a.Args[0]
	}
	return c.mk(Term{Op: OBNot, Sort: SBool, Args: []*Term{a}})
}

func (c *Ctx) And(a, b *Term) *Term {
	if a.IsConst() {
		if a.Val == 0 {
			return a
		}
		return b
	}
	if b.IsConst() {
		if b.Val == 0 {
			return b
		}
		return a
	}
	if a == b {
		return a
	}
	if a.ID > b.ID {
		a, b = b, a
	}
	return c.mk(Term{Op: OBAnd, Sort: SBool, Args: []*Term{a, b}})
}

func (c *Ctx) Or(a, b *Term) *Term {
	if a.IsConst() {
		if a.Val == 1 {
			return a
		}
		return b
	}
	if b.IsConst() {
		if b.Val == 1 {
			return b
		}
		return a
	}
	if a == b {
		return a
	}
	if a.ID > b.ID {
		a, b = b, a
	}
	return c.mk(Term{Op: OBOr, Sort: SBool, Args: []*Term{a, b}})
}

func (c *Ctx) Implies(a, b *Term) *Term { return c.Or(c.Not(a), b) }

func (c *Ctx) Ite(cond, a, b *Term) *Term {
	if cond.IsConst() {
		if cond.Val == 1 {
			return a
		}
		return b
	}
	if a == b {
		return a
	}
	if a.Sort != b.Sort || a.W != b.W {
		panic(fmt.Sprintf("smt.Ite: sorts %v/%d %v/%d", a.Sort, a.W, b.Sort, b.W))
	}
	if a.Sort == SBool {
		if a.IsConst() && b.IsConst() {
			if a.Val == 1 {
				return cond
			}
			return c.Not(cond)
		}
		if a.IsConst() {
			if a.Val == 1 {
				return c.Or(cond, b)
			}
			return c.And(c.Not(cond), b)
		}
		if b.IsConst() {
			if b.Val == 1 {
				return c.Or(c.Not(cond), a)
			}
			return c.And(cond, a)
		}
	}
	return c.mk(Term{Op: OIte, Sort: a.Sort, W: a.W, Args: []*Term{cond, a, b}})
}

// ---- floating point (binary64 only)

func (c *Ctx) FBin(op Op, a, b *Term) *Term {
	if a.IsConst() && b.IsConst() {
		x, y := math.Float64frombits(a.Val), math.Float64frombits(b.Val)
		switch op {
		case OFAdd:
			return c.FP(x + y)
		case OFSub:
			return c.FP(x - y)
		case OFMul:
			return c.FP(x * y)
		case OFDiv:
			return c.FP(x / y)
		}
	}
	return c.mk(Term{Op: op, Sort: SFP, W: 64, Args: []*Term{a, b}})
}

func (c *Ctx) FCmp(op Op, a, b *Term) *Term {
	if a.IsConst() && b.IsConst() {
		x, y := math.Float64frombits(a.Val), math.Float64frombits(b.Val)
		switch op {
		case OFLt:
			return c.Bool(x < y)
		case OFLe:
			return c.Bool(x <= y)
		case OFEq:
			return c.Bool(x == y)
		}
	}
	return c.mk(Term{Op: op, Sort: SBool, Args: []*Term{a, b}})
}

func (c *Ctx) FUn(op Op, a *Term) *Term {
	if a.IsConst() {
		x := math.Float64frombits(a.Val)
		switch op {
		case OFNeg:
			return c.FP(-x)
		case OFCeil:
			return c.FP(math.Ceil(x))
		case OFFloor:
			return c.FP(math.Floor(x))
		case OFIsNaN:
			return c.Bool(x != x)
		}
	}
	s, w := SFP, 64
	if op == OFIsNaN {
		s, w = SBool, 0
	}
	return c.mk(Term{Op: op, Sort: s, W: w, Args: []*Term{a}})
}

func (c *Ctx) FMin(a, b *Term) *Term {
	if a.IsConst() && b.IsConst() {
		return c.FP(math.Min(math.Float64frombits(a.Val), math.Float64frombits(b.Val)))
	}
	return c.mk(Term{Op: OFMin, Sort: SFP, W: 64, Args: []*Term{a, b}})
}

// FFromInt converts a bit-vector to binary64 (RNE).
func (c *Ctx) FFromInt(a *Term, signed bool) *Term {
	if a.IsConst() {
		if signed {
			return c.FP(float64(sext(a.Val, a.W)))
		}
		return c.FP(float64(a.Val))
	}
	op := OFFromU
	if signed {
		op = OFFromS
	}
	return c.mk(Term{Op: op, Sort: SFP, W: 64, Args: []*Term{a}})
}

// FToInt converts binary64 to a bit-vector of width w, truncating toward zero. The result
// is unspecified (as in Go and in SMT-LIB) when the value is out of range; callers check.
func (c *Ctx) FToInt(a *Term, w int, signed bool) *Term {
	if a.IsConst() {
		x := math.Float64frombits(a.Val)
		if x == x && math.Abs(x) < 9.2e18 {
			if signed {
				return c.BV(uint64(int64(x)), w)
			}
			if x >= 0 {
				return c.BV(uint64(x), w)
			}
		}
	}
	op := OFToU
	if signed {
		op = OFToS
	}
	return c.mk(Term{Op: op, Sort: SBV, W: w, Args: []*Term{a}})
}

// UF applies an uninterpreted function (declared on first use).
func (c *Ctx) UF(name string, resW int, args ...*Term) *Term {
	if _, ok := c.UFs[name]; !ok {
		d := &UFDecl{Name: name, ResW: resW}
		for _, a := range args {
			d.ArgW = append(d.ArgW, a.W)
		}
		c.UFs[name] = d
	}
	if len(args) > 3 {
		panic("smt.UF: arity > 3")
	}
	return c.mk(Term{Op: OUF, Sort: SBV, W: resW, Args: args, Name: name})
}

// ---- evaluation under a model (variables not in the model evaluate to 0).

type Model map[string]uint64

// Eval computes the value of t under m. ok=false if t contains operations the evaluator
// does not implement (floating point, uninterpreted functions).
func (c *Ctx) Eval(t *Term, m Model, memo map[int]uint64) (uint64, bool) {
	if t.Op == OConst {
		if t.Sort == SFP {
			return 0, false
		}
		return t.Val, true
	}
	if v, ok := memo[t.ID]; ok {
		return v, true
	}
	var a [3]uint64
	if t.Op != OIte {
		for i, x := range t.Args {
			v, ok := c.Eval(x, m, memo)
			if !ok {
				return 0, false
			}
			a[i] = v
		}
	}
	var r uint64
	b2u := func(b bool) uint64 {
		if b {
			return 1
		}
		return 0
	}
	switch t.Op {
	case OVar:
		if t.Sort == SFP {
			return 0, false
		}
		r = m[t.Name] & mask64(t)
	case OAdd, OSub, OMul, OUDiv, OURem, OSDiv, OSRem, OAnd, OOr, OXor, OShl, OLShr, OAShr:
		r, _ = foldBin(t.Op, a[0], a[1], t.W)
	case ONot:
		r = ^a[0] & mask(t.W)
	case ONeg:
		r = -a[0] & mask(t.W)
	case OExtract:
		r = (a[0] >> uint(t.B)) & mask(t.W)
	case OZExt:
		r = a[0]
	case OSExt:
		r = uint64(sext(a[0], t.Args[0].W)) & mask(t.W)
	case OConcat:
		if t.W > 64 {
			return 0, false
		}
		r = a[0]<<uint(t.Args[1].W) | a[1]
	case OEq:
		if t.Args[0].Sort == SFP {
			return 0, false
		}
		r = b2u(a[0] == a[1])
	case OUlt:
		r = b2u(a[0] < a[1])
	case OUle:
		r = b2u(a[0] <= a[1])
	case OSlt:
		r = b2u(sext(a[0], t.Args[0].W) < sext(a[1], t.Args[0].W))
	case OSle:
		r = b2u(sext(a[0], t.Args[0].W) <= sext(a[1], t.Args[0].W))
	case OBNot:
		r = 1 - a[0]
	case OBAnd:
		r = a[0] & a[1]
	case OBOr:
		r = a[0] | a[1]
	case OIte:
		cv, ok := c.Eval(t.Args[0], m, memo)
		if !ok {
			return 0, false
		}
		var ok2 bool
		if cv == 1 {
			r, ok2 = c.Eval(t.Args[1], m, memo)
		} else {
			r, ok2 = c.Eval(t.Args[2], m, memo)
		}
		if !ok2 {
			return 0, false
		}
	default:
		return 0, false
	}
	memo[t.ID] = r
	return r, true
}

func mask64(t *Term) uint64 {
	if t.Sort == SBool {
		return 1
	}
	return mask(t.W)
}

// Clz returns the number of leading zeros of a (same width), as an ite chain.
func (c *Ctx) Clz(a *Term) *Term {
	if a.IsConst() {
		return c.BV(uint64(bits.LeadingZeros64(a.Val)-(64-a.W)), a.W)
	}
	res := c.BV(uint64(a.W), a.W)
	for i := 0; i < a.W; i++ {
		bit := c.Cmp(OEq, c.Extract(a, i, i), c.BV(1, 1))
		res = c.Ite(bit, c.BV(uint64(a.W-1-i), a.W), res)
	}
	return res
}
