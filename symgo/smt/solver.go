package smt

import (
	"bufio"
	"fmt"
	"io"
	"os/exec"
	"strconv"
	"strings"
	"time"
)

// ---------------------------------------------------------------- printing

func sortStr(t *Term) string {
	switch t.Sort {
	case SBool:
		return "Bool"
	case SFP:
		return "(_ FloatingPoint 11 53)"
	}
	return fmt.Sprintf("(_ BitVec %d)", t.W)
}

func constStr(t *Term) string {
	switch t.Sort {
	case SBool:
		if t.Val == 1 {
			return "true"
		}
		return "false"
	case SFP:
		return fmt.Sprintf("((_ to_fp 11 53) #x%016x)", t.Val)
	}
	return fmt.Sprintf("(_ bv%d %d)", t.Val, t.W)
}

func quote(n string) string { return "|" + n + "|" }

var opName = map[Op]string{
	OAdd: "bvadd", OSub: "bvsub", OMul: "bvmul", OUDiv: "bvudiv", OURem: "bvurem", OSDiv: "bvsdiv", OSRem: "bvsrem",
	OAnd: "bvand", OOr: "bvor", OXor: "bvxor", OShl: "bvshl", OLShr: "bvlshr", OAShr: "bvashr", ONot: "bvnot", ONeg: "bvneg",
	OConcat: "concat", OEq: "=", OUlt: "bvult", OUle: "bvule", OSlt: "bvslt", OSle: "bvsle",
	OBNot: "not", OBAnd: "and", OBOr: "or", OIte: "ite",
	OFLt: "fp.lt", OFLe: "fp.leq", OFEq: "fp.eq", OFNeg: "fp.neg", OFMin: "fp.min", OFIsNaN: "fp.isNaN",
}

// ref is how a term is referred to inside other terms.
func ref(t *Term) string {
	switch t.Op {
	case OConst:
		return constStr(t)
	case OVar:
		return quote(t.Name)
	}
	return "t" + strconv.Itoa(t.ID)
}

// body prints the defining expression of a non-leaf term using refs for its arguments.
func body(t *Term) string {
	a := func(i int) string { return ref(t.Args[i]) }
	switch t.Op {
	case OExtract:
		return fmt.Sprintf("((_ extract %d %d) %s)", t.A, t.B, a(0))
	case OZExt:
		return fmt.Sprintf("((_ zero_extend %d) %s)", t.A, a(0))
	case OSExt:
		return fmt.Sprintf("((_ sign_extend %d) %s)", t.A, a(0))
	case OFAdd:
		return fmt.Sprintf("(fp.add RNE %s %s)", a(0), a(1))
	case OFSub:
		return fmt.Sprintf("(fp.sub RNE %s %s)", a(0), a(1))
	case OFMul:
		return fmt.Sprintf("(fp.mul RNE %s %s)", a(0), a(1))
	case OFDiv:
		return fmt.Sprintf("(fp.div RNE %s %s)", a(0), a(1))
	case OFFromS:
		return fmt.Sprintf("((_ to_fp 11 53) RNE %s)", a(0))
	case OFFromU:
		return fmt.Sprintf("((_ to_fp_unsigned 11 53) RNE %s)", a(0))
	case OFToS:
		return fmt.Sprintf("((_ fp.to_sbv %d) RTZ %s)", t.W, a(0))
	case OFToU:
		return fmt.Sprintf("((_ fp.to_ubv %d) RTZ %s)", t.W, a(0))
	case OFCeil:
		return fmt.Sprintf("(fp.roundToIntegral RTP %s)", a(0))
	case OFFloor:
		return fmt.Sprintf("(fp.roundToIntegral RTN %s)", a(0))
	case OFFromBV:
		return fmt.Sprintf("((_ to_fp 11 53) %s)", a(0))
	case OUF:
		s := "(" + quote(t.Name)
		for i := range t.Args {
			s += " " + a(i)
		}
		return s + ")"
	}
	n, ok := opName[t.Op]
	if !ok {
		panic(fmt.Sprintf("smt: no printer for op %d", t.Op))
	}
	s := "(" + n
	for i := range t.Args {
		s += " " + a(i)
	}
	return s + ")"
}

// Emitter tracks which declarations a solver session has already received.
type Emitter struct {
	ctx     *Ctx
	emitted []bool
	ufs     map[string]bool
}

func NewEmitter(c *Ctx) *Emitter { return &Emitter{ctx: c, ufs: map[string]bool{}} }

// Decls appends to sb the declarations/definitions needed for roots that were not emitted yet.
func (e *Emitter) Decls(sb *strings.Builder, roots ...*Term) {
	for len(e.emitted) < len(e.ctx.Terms) {
		e.emitted = append(e.emitted, false)
	}
	need := []*Term{}
	var visit func(t *Term)
	seen := map[int]bool{}
	visit = func(t *Term) {
		if t.Op == OConst || e.emitted[t.ID] || seen[t.ID] {
			return
		}
		seen[t.ID] = true
		for _, a := range t.Args {
			visit(a)
		}
		need = append(need, t) // post-order: args first
	}
	for _, r := range roots {
		visit(r)
	}
	for _, t := range need {
		e.emitted[t.ID] = true
		switch t.Op {
		case OVar:
			fmt.Fprintf(sb, "(declare-const %s %s)\n", quote(t.Name), sortStr(t))
		default:
			if t.Op == OUF && !e.ufs[t.Name] {
				e.ufs[t.Name] = true
				d := e.ctx.UFs[t.Name]
				fmt.Fprintf(sb, "(declare-fun %s (", quote(t.Name))
				for _, w := range d.ArgW {
					fmt.Fprintf(sb, "(_ BitVec %d) ", w)
				}
				fmt.Fprintf(sb, ") (_ BitVec %d))\n", d.ResW)
			}
			fmt.Fprintf(sb, "(define-fun t%d () %s %s)\n", t.ID, sortStr(t), body(t))
		}
	}
}

// Script renders a self-contained SMT-LIB2 script: pc ∧ extra, check-sat.
func Script(c *Ctx, pc []*Term, extra *Term) string {
	var sb strings.Builder
	e := NewEmitter(c)
	roots := append(append([]*Term{}, pc...), extra)
	e.Decls(&sb, roots...)
	for _, p := range pc {
		fmt.Fprintf(&sb, "(assert %s)\n", ref(p))
	}
	fmt.Fprintf(&sb, "(assert %s)\n(check-sat)\n", ref(extra))
	return sb.String()
}

// ---------------------------------------------------------------- solver process

type Result int

const (
	Unsat Result = iota
	Sat
	Unknown
)

func (r Result) String() string { return [...]string{"unsat", "sat", "unknown"}[r] }

type Stats struct {
	Queries, Sat, Unsat, Unknown, Retries int
	Time                         time.Duration
	MaxQueryBytes                int
}

// Solver is one long-lived solver process fed over a pipe.
type Solver struct {
	Path      string
	Args      []string
	TimeoutMS int
	cmd       *exec.Cmd
	in        io.WriteCloser
	out       *bufio.Reader
	em        *Emitter
	ctx       *Ctx
	Stats     Stats
	LastErr   string
	scoped    bool
	Log       io.Writer // optional transcript
}

func NewZ3(timeoutMS int) *Solver {
	return &Solver{Path: "z3-new", Args: []string{"-in"}, TimeoutMS: timeoutMS}
}

func (s *Solver) start() error {
	s.cmd = exec.Command(s.Path, s.Args...)
	var err error
	if s.in, err = s.cmd.StdinPipe(); err != nil {
		return err
	}
	o, err := s.cmd.StdoutPipe()
	if err != nil {
		return err
	}
	s.cmd.Stderr = nil
	s.out = bufio.NewReaderSize(o, 1<<16)
	return s.cmd.Start()
}

func (s *Solver) Close() {
	if s.cmd != nil {
		s.in.Close()
		s.cmd.Process.Kill()
		s.cmd.Wait()
		s.cmd = nil
	}
}

func (s *Solver) send(txt string) {
	if s.cmd == nil {
		return
	}
	if s.Log != nil {
		io.WriteString(s.Log, txt)
	}
	if _, err := io.WriteString(s.in, txt); err != nil {
		s.LastErr = err.Error()
	}
}

// Begin starts a fresh session for the terms of ctx (one per path).
func (s *Solver) Begin(c *Ctx) {
	if s.cmd == nil {
		if err := s.start(); err != nil {
			panic("cannot start solver " + s.Path + ": " + err.Error())
		}
	}
	s.ctx = c
	s.em = NewEmitter(c)
	s.LastErr = ""
	// (reset) costs ~50 ms in Z3 5.1; an outer push/pop scope per path costs nothing
	if !s.scoped {
		if s.TimeoutMS > 0 {
			s.send(fmt.Sprintf("(set-option :timeout %d)\n", s.TimeoutMS))
		}
		s.send("(push 1)\n")
		s.scoped = true
	} else {
		s.send("(pop 1)\n(push 1)\n")
	}
}

// Assert adds t permanently to the session.
func (s *Solver) Assert(t *Term) {
	var sb strings.Builder
	s.em.Decls(&sb, t)
	fmt.Fprintf(&sb, "(assert %s)\n", ref(t))
	s.send(sb.String())
}

func (s *Solver) readLine() string {
	line, err := s.out.ReadString('\n')
	if err != nil {
		s.LastErr = "solver died: " + err.Error()
		s.cmd.Process.Kill()
		s.cmd.Wait()
		s.cmd = nil
		s.scoped = false
		return ""
	}
	return strings.TrimSpace(line)
}

// Check decides session ∧ extra (extra may be nil). With wantModel a model of all declared
// variables is returned on sat.
func (s *Solver) Check(extra *Term, wantModel bool) (Result, Model) {
	t0 := time.Now()
	if s.cmd == nil {
		s.LastErr = "solver process not running"
		return Unknown, nil
	}
	var sb strings.Builder
	if extra != nil {
		s.em.Decls(&sb, extra)
		fmt.Fprintf(&sb, "(push 1)\n(assert %s)\n", ref(extra))
	}
	sb.WriteString("(check-sat)\n")
	if sb.Len() > s.Stats.MaxQueryBytes {
		s.Stats.MaxQueryBytes = sb.Len()
	}
	s.send(sb.String())
	verdict := func() Result {
		res := Unknown
		// a solver that ignores its time limit is killed: the path ends inconclusive ("solver died")
		if s.TimeoutMS > 0 && s.cmd != nil {
			proc := s.cmd.Process
			wd := time.AfterFunc(time.Duration(10*s.TimeoutMS)*time.Millisecond+30*time.Second, func() { proc.Kill() })
			defer wd.Stop()
		}
		for {
			line := s.readLine()
			if s.cmd == nil {
				break
			}
			if line == "sat" {
				res = Sat
				break
			} else if line == "unsat" {
				res = Unsat
				break
			} else if line == "unknown" || line == "timeout" {
				break
			} else if strings.HasPrefix(line, "(error") {
				s.LastErr = line
				// an error line precedes the verdict or replaces it; the verdict (if any) is not trusted
				res = Unknown
				// drain: z3 prints the check-sat answer after errors in earlier commands
				continue
			}
		}
		return res
	}
	res := verdict()
	if res == Unknown && s.cmd != nil && s.LastErr == "" && s.TimeoutMS > 0 {
		// a time-out under load is not a verdict: ask once more with six times the budget
		s.Stats.Retries++
		s.send(fmt.Sprintf("(set-option :timeout %d)\n(check-sat)\n", 6*s.TimeoutMS))
		res = verdict()
		if s.cmd != nil {
			s.send(fmt.Sprintf("(set-option :timeout %d)\n", s.TimeoutMS))
		}
	}
	var m Model
	if res == Sat && wantModel && s.cmd != nil {
		m = s.getModel()
	}
	if extra != nil && s.cmd != nil {
		s.send("(pop 1)\n")
	}
	s.Stats.Queries++
	switch res {
	case Sat:
		s.Stats.Sat++
	case Unsat:
		s.Stats.Unsat++
	default:
		s.Stats.Unknown++
	}
	s.Stats.Time += time.Since(t0)
	if s.LastErr != "" && res != Unknown && strings.HasPrefix(s.LastErr, "(error") {
		res = Unknown
	}
	return res, m
}

func (s *Solver) getModel() Model {
	m := Model{}
	var names []string
	for _, v := range s.ctx.Vars {
		if v.ID < len(s.em.emitted) && s.em.emitted[v.ID] && v.Sort != SFP {
			names = append(names, quote(v.Name))
		}
	}
	if len(names) == 0 {
		return m
	}
	s.send("(get-value (" + strings.Join(names, " ") + "))\n")
	// read a balanced s-expression
	var sb strings.Builder
	depth, started := 0, false
	for {
		line, err := s.out.ReadString('\n')
		if err != nil {
			s.LastErr = "solver died in get-value"
			return m
		}
		sb.WriteString(line)
		inBar := false
		for _, ch := range line {
			switch {
			case ch == '|':
				inBar = !inBar
			case inBar:
			case ch == '(':
				depth++
				started = true
			case ch == ')':
				depth--
			}
		}
		if started && depth <= 0 {
			break
		}
	}
	parseValues(sb.String(), m)
	return m
}

// parseValues parses "((|a| #x05) (|b| true) ...)".
func parseValues(txt string, m Model) {
	i := 0
	n := len(txt)
	for i < n {
		// find next "(|" or "(name"
		j := strings.Index(txt[i:], "(|")
		if j < 0 {
			break
		}
		i += j + 2
		k := strings.IndexByte(txt[i:], '|')
		if k < 0 {
			break
		}
		name := txt[i : i+k]
		i += k + 1
		for i < n && (txt[i] == ' ' || txt[i] == '\n') {
			i++
		}
		// value token up to ')'
		k = strings.IndexByte(txt[i:], ')')
		if k < 0 {
			break
		}
		tok := strings.TrimSpace(txt[i : i+k])
		i += k + 1
		switch {
		case tok == "true":
			m[name] = 1
		case tok == "false":
			m[name] = 0
		case strings.HasPrefix(tok, "#x"):
			v, _ := strconv.ParseUint(tok[2:], 16, 64)
			m[name] = v
		case strings.HasPrefix(tok, "#b"):
			v, _ := strconv.ParseUint(tok[2:], 2, 64)
			m[name] = v
		case strings.HasPrefix(tok, "(_ bv"):
			f := strings.Fields(tok[5:])
			v, _ := strconv.ParseUint(f[0], 10, 64)
			m[name] = v
		}
	}
}

// RunScript runs a self-contained script on an external solver binary and returns the
// first verdict line (used for cross-checks).
func RunScript(bin string, args []string, script string, timeout time.Duration) (string, time.Duration) {
	t0 := time.Now()
	cmd := exec.Command(bin, args...)
	cmd.Stdin = strings.NewReader(script)
	done := make(chan struct{})
	var out []byte
	go func() { out, _ = cmd.CombinedOutput(); close(done) }()
	select {
	case <-done:
	case <-time.After(timeout):
		if cmd.Process != nil {
			cmd.Process.Kill()
		}
		<-done
		return "timeout", time.Since(t0)
	}
	res := "unknown"
	for _, l := range strings.Split(string(out), "\n") {
		l = strings.TrimSpace(l)
		if strings.HasPrefix(l, "(error") {
			return "error: " + l, time.Since(t0)
		}
		if l == "sat" || l == "unsat" || l == "unknown" {
			res = l
		}
	}
	return res, time.Since(t0)
}
