package interp

// Deterministic cooperative scheduler for interpreted goroutines, with engine-level
// channels, select, mutexes, wait groups. One baton per interpreter: exactly one
// interpreted goroutine runs at any time; in schedule-exploring runs every visible
// operation is a choice point of the explorer.

import (
	"strings"
	"fmt"
	"sync"
)

type gor struct {
	fresh   bool // just given the baton by a voluntary preemption and has not taken effect since
	id      int
	wake    chan struct{}
	done    bool
	blocked bool
	why     string
	held    map[*mutexObj]int
	name    string
}

type scheduler struct {
	i         *interpreter
	gs        []*gor
	cur       *gor
	runq      []*gor
	killed    bool
	wg        sync.WaitGroup
	crashed   []string
	quiescent bool
	waitQ     bool // main is in WaitQuiescent
	abort     interface{}
}

func newScheduler(i *interpreter) *scheduler {
	s := &scheduler{i: i}
	g0 := &gor{id: 0, wake: make(chan struct{}, 1), held: map[*mutexObj]int{}, name: "main"}
	s.gs = []*gor{g0}
	s.cur = g0
	return s
}

// spawn registers a new goroutine running body; it becomes runnable but does not run yet.
func (s *scheduler) spawn(name string, body func()) {
	g := &gor{id: len(s.gs), wake: make(chan struct{}, 1), held: map[*mutexObj]int{}, name: name}
	s.gs = append(s.gs, g)
	s.runq = append(s.runq, g)
	s.wg.Add(1)
	go func() {
		defer s.wg.Done()
		<-g.wake
		if s.killed {
			return
		}
		defer func() {
			if r := recover(); r != nil {
				switch r := r.(type) {
				case killSentinel:
					return
				case pathEnd, engineError:
					// end the whole path: hand the reason to main
					s.abort = r
					g.done = true
					s.wakeMainForAbort()
					return
				default:
					// a panic escaping a goroutine = process crash
					g.done = true
					s.crashed = append(s.crashed, fmt.Sprintf("goroutine %d (%s): %s", g.id, g.name, panicString(r)))
					s.abort = crashAbort{}
					s.wakeMainForAbort()
					return
				}
			}
		}()
		body()
		g.done = true
		s.handoff()
	}()
}

type crashAbort struct{}

func (s *scheduler) wakeMainForAbort() {
	g0 := s.gs[0]
	s.cur = g0
	g0.wake <- struct{}{}
}

// checkAbort is called by main whenever it gets the baton back.
func (s *scheduler) checkAbort() {
	if s.abort != nil {
		a := s.abort
		s.abort = nil
		switch a := a.(type) {
		case crashAbort:
			ex := s.i.ex
			var m = ex.model
			if !ex.ensureModelNoPanic() {
				m = nil
			} else {
				m = ex.model
			}
			ex.fail("crash", "crash:goroutine", s.crashed[len(s.crashed)-1], m)
			panic(pathEnd{"crash"})
		default:
			panic(a)
		}
	}
}

// handoff gives the baton to the next runnable goroutine (FIFO). Called by a goroutine that
// is finished or has just marked itself blocked.
func (s *scheduler) handoff() {
	if len(s.runq) == 0 {
		s.quiescent = true
		g0 := s.gs[0]
		if g0 != s.cur || g0.blocked {
			s.cur = g0
			g0.wake <- struct{}{}
		}
		return
	}
	next := s.runq[0]
	s.runq = s.runq[1:]
	s.cur = next
	next.wake <- struct{}{}
}

// block parks the current goroutine until another one unblocks it.
func (s *scheduler) block(why string) {
	g := s.cur
	g.blocked, g.why = true, why
	s.handoff()
	<-g.wake
	if s.killed {
		panic(killSentinel{})
	}
	if g.id == 0 {
		s.checkAbort()
		if s.quiescent && g.blocked {
			s.quiescent = false
			if s.waitQ {
				g.blocked = false
				return
			}
			s.deadlock(why)
		}
	}
}

func (s *scheduler) deadlock(why string) {
	ex := s.i.ex
	var desc string
	for _, g := range s.gs {
		if !g.done && g.blocked {
			desc += fmt.Sprintf(" g%d(%s):%s", g.id, g.name, g.why)
		}
	}
	if ex.ensureModelNoPanic() {
		ex.fail("deadlock", "deadlock:main", "main blocked on "+why+"; blocked:"+desc, ex.model)
	} else {
		ex.fail("deadlock", "deadlock:main", "main blocked on "+why+"; blocked:"+desc, nil)
	}
	panic(pathEnd{"deadlock"})
}

// waitQuiescent blocks main until no other goroutine can run; it returns the number of
// goroutines that are still blocked.
func (s *scheduler) waitQuiescent() int {
	if s.cur.id != 0 {
		panic(engineError{"rt.WaitQuiescent called outside the main goroutine"})
	}
	for len(s.runq) > 0 {
		s.waitQ = true
		s.block("wait-quiescent")
		s.waitQ = false
	}
	n := 0
	for _, g := range s.gs[1:] {
		if !g.done {
			n++
		}
	}
	return n
}

func (s *scheduler) blockedDesc() string {
	var desc string
	for _, g := range s.gs[1:] {
		if !g.done {
			desc += fmt.Sprintf("g%d(%s):%s ", g.id, g.name, g.why)
		}
	}
	return desc
}

func (s *scheduler) unblock(g *gor) {
	if g.blocked {
		g.blocked = false
		s.runq = append(s.runq, g)
	}
}

// yield is a visible operation: in schedule-exploring runs the explorer chooses which
// runnable goroutine goes next (alternative 0 = the current one continues).
func (s *scheduler) yield(kind string) {
	if !s.i.ex.run.cfg.Sched || len(s.runq) == 0 {
		return
	}
	if ks := s.i.ex.run.cfg.SchedKinds; ks != "" && !strings.Contains(","+ks+",", ","+kind+",") {
		return
	}
	// operations issued from packages the harness declares independent of the property (e.g.
	// the metrics package when metrics are not the subject) are not scheduling points
	if sp := s.i.ex.run.cfg.SchedSkipPkgs; sp != "" && kind != "rt" {
		if c := s.i.extCaller; c != nil && c.fn != nil && c.fn.Pkg != nil && strings.Contains(","+sp+",", ","+c.fn.Pkg.Pkg.Path()+",") {
			return
		}
	}
	// Reduction (sound for the equivalence "same order of effective visible operations"):
	// a goroutine that was just preempted *to* takes its next visible operation before it
	// can be preempted again -- bouncing back without effect equals not having switched.
	if s.cur.fresh {
		switch kind {
		case "unlock": // the release already happened: an effect
			s.cur.fresh = false
		case "lock": // decided in lock(): acquiring is an effect, blocking is not
			return
		default:
			s.cur.fresh = false
			return
		}
	}
	k := s.i.ex.Choice(len(s.runq)+1, "sched")
	if k == 0 {
		return
	}
	s.switchTo(k - 1)
}

// switchTo parks the current goroutine (still runnable) and runs runq[k].
func (s *scheduler) switchTo(k int) {
	g := s.cur
	chosen := s.runq[k]
	s.runq = append(s.runq[:k], s.runq[k+1:]...)
	s.runq = append([]*gor{chosen}, s.runq...)
	s.runq = append(s.runq, g)
	chosen.fresh = true
	s.handoff()
	<-g.wake
	if s.killed {
		panic(killSentinel{})
	}
	if g.id == 0 {
		s.checkAbort()
	}
}

// gosched lets every other runnable goroutine run first (runtime.Gosched, time.Sleep).
func (s *scheduler) gosched() {
	if len(s.runq) == 0 {
		return
	}
	g := s.cur
	s.runq = append(s.runq, g)
	s.handoff()
	<-g.wake
	if s.killed {
		panic(killSentinel{})
	}
	if g.id == 0 {
		s.checkAbort()
	}
}

// killAll terminates every parked goroutine (end of a path).
func (s *scheduler) killAll() {
	s.killed = true
	for _, g := range s.gs[1:] {
		if !g.done {
			select {
			case g.wake <- struct{}{}:
			default:
			}
		}
	}
	s.wg.Wait()
}

// mainDone is called when the harness function returned.
func (s *scheduler) mainDone(i *interpreter) {}

// ---------------------------------------------------------------- channels

type waiter struct {
	g           *gor
	val         value
	ok          bool
	sel         *selState
	idx         int
	fired       bool
	panicClosed bool
}

type selState struct {
	fired bool
	idx   int
	val   value
	ok    bool
}

type chanObj struct {
	cap    int
	buf    []value
	closed bool
	recvq  []*waiter
	sendq  []*waiter
	timer  bool // time.After channel: may fire whenever somebody waits on it
	fires  int
}

func (w *waiter) live() bool { return !w.fired && (w.sel == nil || !w.sel.fired) }

func popLive(q *[]*waiter) *waiter {
	for len(*q) > 0 {
		w := (*q)[0]
		*q = (*q)[1:]
		if w.live() {
			return w
		}
	}
	return nil
}

func hasLive(q []*waiter) bool {
	for _, w := range q {
		if w.live() {
			return true
		}
	}
	return false
}

func (s *scheduler) fire(w *waiter, v value, ok bool) {
	w.fired = true
	w.val, w.ok = v, ok
	if w.sel != nil {
		w.sel.fired, w.sel.idx, w.sel.val, w.sel.ok = true, w.idx, v, ok
	}
	s.unblock(w.g)
}

func (s *scheduler) chanSend(c *chanObj, v value) {
	if c == nil {
		s.block("send on nil chan")
		panic(engineError{"woke from send on nil channel"})
	}
	s.yield("chan")
	if c.closed {
		panic(targetPanic{"send on closed channel"})
	}
	if w := popLive(&c.recvq); w != nil {
		s.fire(w, v, true)
		return
	}
	if len(c.buf) < c.cap {
		c.buf = append(c.buf, v)
		return
	}
	w := &waiter{g: s.cur, val: v}
	c.sendq = append(c.sendq, w)
	s.block("chan send")
	if w.panicClosed {
		panic(targetPanic{"send on closed channel"})
	}
}

func (s *scheduler) chanRecv(c *chanObj, zeroV value) (value, bool) {
	if c == nil {
		s.block("recv on nil chan")
		panic(engineError{"woke from recv on nil channel"})
	}
	s.yield("chan")
	if v, ok, ready := s.chanTryRecv(c, zeroV); ready {
		return v, ok
	}
	if c.timer {
		c.fires++
		return zeroV, true
	}
	w := &waiter{g: s.cur}
	c.recvq = append(c.recvq, w)
	s.block("chan recv")
	return w.val, w.ok
}

func (s *scheduler) chanTryRecv(c *chanObj, zeroV value) (v value, ok, ready bool) {
	if len(c.buf) > 0 {
		v = c.buf[0]
		c.buf = c.buf[1:]
		if w := popLive(&c.sendq); w != nil {
			c.buf = append(c.buf, w.val)
			s.fire(w, nil, true)
		}
		return v, true, true
	}
	if w := popLive(&c.sendq); w != nil {
		v = w.val
		s.fire(w, nil, true)
		return v, true, true
	}
	if c.closed {
		return zeroV, false, true
	}
	return nil, false, false
}

func (s *scheduler) chanClose(c *chanObj, zeroV value) {
	if c == nil {
		panic(targetPanic{"close of nil channel"})
	}
	if c.closed {
		panic(targetPanic{"close of closed channel"})
	}
	c.closed = true
	for {
		w := popLive(&c.recvq)
		if w == nil {
			break
		}
		s.fire(w, zeroV, false)
	}
	for {
		w := popLive(&c.sendq)
		if w == nil {
			break
		}
		w.panicClosed = true
		s.fire(w, nil, false)
	}
}

type selCase struct {
	c     *chanObj
	send  bool
	val   value
	zeroV value
}

func (s *scheduler) caseReady(sc selCase) bool {
	if sc.c == nil {
		return false
	}
	if sc.send {
		return sc.c.closed || hasLive(sc.c.recvq) || len(sc.c.buf) < sc.c.cap
	}
	return len(sc.c.buf) > 0 || hasLive(sc.c.sendq) || sc.c.closed
}

// chanSelect returns the chosen index (-1 = default), received value and ok.
func (s *scheduler) chanSelect(cases []selCase, hasDefault bool) (int, value, bool) {
	s.yield("select")
	var ready []int
	for i, sc := range cases {
		if s.caseReady(sc) {
			ready = append(ready, i)
		}
	}
	// timers: a time.After case may fire whenever it is waited on
	var timers []int
	for i, sc := range cases {
		if sc.c != nil && !sc.send && sc.c.timer && !s.caseReady(sc) {
			timers = append(timers, i)
		}
	}
	if len(ready) > 0 {
		pick := ready[0]
		if s.i.ex.run.cfg.Sched && len(ready) > 1 {
			pick = ready[s.i.ex.Choice(len(ready), "selpick")]
		}
		sc := cases[pick]
		if sc.send {
			if sc.c.closed {
				panic(targetPanic{"send on closed channel"})
			}
			if w := popLive(&sc.c.recvq); w != nil {
				s.fire(w, sc.val, true)
				return pick, nil, false
			}
			sc.c.buf = append(sc.c.buf, sc.val)
			return pick, nil, false
		}
		v, ok, _ := s.chanTryRecv(sc.c, sc.zeroV)
		return pick, v, ok
	}
	if hasDefault {
		return -1, nil, false
	}
	// nothing ready: a timer case fires (one of the legal behaviours); otherwise block
	if len(timers) > 0 {
		cases[timers[0]].c.fires++
		return timers[0], cases[timers[0]].zeroV, true
	}
	st := &selState{}
	for i, sc := range cases {
		if sc.c == nil {
			continue
		}
		w := &waiter{g: s.cur, sel: st, idx: i, val: sc.val}
		if sc.send {
			sc.c.sendq = append(sc.c.sendq, w)
		} else {
			sc.c.recvq = append(sc.c.recvq, w)
		}
	}
	s.block("select")
	return st.idx, st.val, st.ok
}

// ---------------------------------------------------------------- mutexes

type mutexObj struct {
	id      int
	writer  *gor
	readers map[*gor]int
	waitq   []*mwaiter
	log     []string
}
type mwaiter struct {
	g    *gor
	read bool
}

func (i *interpreter) mutexOf(p *value) *mutexObj {
	m := i.mutexes[p]
	if m == nil {
		m = &mutexObj{readers: map[*gor]int{}, id: len(i.mutexes)}
		i.mutexes[p] = m
		i.mutexList = append(i.mutexList, m)
	}
	return m
}

func (s *scheduler) lock(m *mutexObj, read bool) {
	s.yield("lock")
	for {
		// sync.RWMutex: a pending Lock keeps new readers out (also a reader that already holds
		// the lock: a recursive RLock deadlocks against a waiting writer)
		writerWaiting := false
		for _, w := range m.waitq {
			if !w.read && w.g != s.cur {
				writerWaiting = true
			}
		}
		if read && m.writer == nil && !writerWaiting {
			m.readers[s.cur]++
			s.cur.held[m]++
			s.cur.fresh = false
			return
		}
		if !read && m.writer == nil && len(m.readers) == 0 {
			m.writer = s.cur
			s.cur.held[m]++
			s.cur.fresh = false
			return
		}
		if s.cur.id == 0 && len(s.runq) == 0 {
			// nobody can ever release it
			s.deadlock("mutex")
		}
		if s.cur.fresh && !(!read && len(m.readers) > 0) {
			// (a Lock attempt while readers hold an RWMutex is *not* effect-free: the pending
			// writer keeps later readers out, so that preemption is kept)
			// preempting to a goroutine whose first operation is to block on a held mutex is
			// equivalent to not preempting there (the attempt has no effect; the goroutine will
			// attempt again after the release in the schedule that does not preempt)
			panic(pathEnd{"redundant-schedule"})
		}
		m.waitq = append(m.waitq, &mwaiter{s.cur, read})
		s.block("mutex")
	}
}

func (s *scheduler) tryLock(m *mutexObj, read bool) bool {
	if read && m.writer == nil {
		m.readers[s.cur]++
		s.cur.held[m]++
		return true
	}
	if !read && m.writer == nil && len(m.readers) == 0 {
		m.writer = s.cur
		s.cur.held[m]++
		return true
	}
	return false
}

func (s *scheduler) unlock(m *mutexObj, read bool) {
	if read {
		// Go allows RUnlock by another goroutine; take any reader entry
		g := s.cur
		if m.readers[g] == 0 {
			g = nil
			for r := range m.readers {
				g = r
				break
			}
			if g == nil {
				panic(targetPanic{"sync: RUnlock of unlocked RWMutex"})
			}
		}
		m.readers[g]--
		g.held[m]--
		if g.held[m] == 0 {
			delete(g.held, m)
		}
		if m.readers[g] == 0 {
			delete(m.readers, g)
		}
	} else {
		if m.writer == nil {
			panic(targetPanic{"sync: unlock of unlocked mutex"})
		}
		m.writer.held[m]--
		if m.writer.held[m] == 0 {
			delete(m.writer.held, m)
		}
		m.writer = nil
	}
	q := m.waitq
	m.waitq = nil
	for _, w := range q {
		s.unblock(w.g)
	}
	s.yield("unlock")
}

// ---------------------------------------------------------------- wait groups

type wgObj struct {
	n     int
	waitq []*gor
}

func (s *scheduler) wgAdd(w *wgObj, d int) {
	w.n += d
	if w.n < 0 {
		panic(targetPanic{"sync: negative WaitGroup counter"})
	}
	if w.n == 0 {
		for _, g := range w.waitq {
			s.unblock(g)
		}
		w.waitq = nil
	}
}

func (s *scheduler) wgWait(w *wgObj) {
	for w.n > 0 {
		w.waitq = append(w.waitq, s.cur)
		s.block("waitgroup")
	}
}
