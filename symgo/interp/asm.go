package interp

// A translator for the tiny subset of Plan-9 amd64 assembly used by the repository
// (metrics/lzcnt_amd64.s): BSRQ, JZ/JEQ, JNZ/JNE, SUBQ, ADDQ, NEGQ, MOVQ, RET on AX..DX and
// the argument/result slots. Any other mnemonic or operand form makes the run inconclusive.

import (
	"fmt"
	"go/types"
	"os"
	"path/filepath"
	"strconv"
	"strings"

	"golang.org/x/tools/go/ssa"

	"verif/symgo/smt"
)

var RepoDir = "/repo"

type asmInstr struct {
	label string
	op    string
	args  []string
}

func parseAsm(path, sym string) ([]asmInstr, error) {
	b, err := os.ReadFile(path)
	if err != nil {
		return nil, err
	}
	var out []asmInstr
	in := false
	for _, line := range strings.Split(string(b), "\n") {
		if k := strings.Index(line, "//"); k >= 0 {
			line = line[:k]
		}
		line = strings.TrimSpace(line)
		if line == "" {
			continue
		}
		if strings.HasPrefix(line, "TEXT") {
			in = strings.Contains(line, "·"+sym+"(SB)")
			continue
		}
		if !in {
			continue
		}
		if strings.HasSuffix(line, ":") {
			out = append(out, asmInstr{label: strings.TrimSuffix(line, ":")})
			continue
		}
		f := strings.Fields(line)
		rest := strings.TrimSpace(strings.TrimPrefix(line, f[0]))
		var args []string
		for _, a := range strings.Split(rest, ",") {
			if a = strings.TrimSpace(a); a != "" {
				args = append(args, a)
			}
		}
		out = append(out, asmInstr{op: f[0], args: args})
	}
	if len(out) == 0 {
		return nil, fmt.Errorf("no TEXT ·%s in %s", sym, path)
	}
	return out, nil
}

// asmExternal returns a model for a body-less function if an assembly file defines it.
func asmExternal(fn *ssa.Function) externalFn {
	if fn.Pkg == nil || !repoPkg(fn.Pkg.Pkg.Path()) {
		return nil
	}
	rel := strings.TrimPrefix(fn.Pkg.Pkg.Path(), "github.com/netflix/rend")
	dir := filepath.Join(RepoDir, rel)
	files, _ := filepath.Glob(filepath.Join(dir, "*_amd64.s"))
	for _, f := range files {
		prog, err := parseAsm(f, fn.Name())
		if err != nil {
			continue
		}
		return func(fr *frame, args []value) value { return runAsm(fr, fn, prog, args) }
	}
	return nil
}

func runAsm(fr *frame, fn *ssa.Function, prog []asmInstr, args []value) value {
	i := fr.i
	c := i.ex.ctx
	sig := fn.Signature
	// argument / result slots by name+offset are resolved by order: x+0(FP) = first argument
	slots := map[string]*smt.Term{}
	off := 0
	for j := 0; j < sig.Params().Len(); j++ {
		slots[fmt.Sprintf("%s+%d(FP)", sig.Params().At(j).Name(), off)] = c.ZExt(i.term(args[j]), 64)
		off += 8
	}
	resName := map[string]int{}
	for j := 0; j < sig.Results().Len(); j++ {
		n := sig.Results().At(j).Name()
		if n == "" {
			n = "ret"
			if j > 0 {
				n = fmt.Sprintf("ret%d", j)
			}
		}
		resName[fmt.Sprintf("%s+%d(FP)", n, off)] = j
		off += 8
	}
	regs := map[string]*smt.Term{}
	results := make([]*smt.Term, sig.Results().Len())
	var zf *smt.Term
	read := func(a string) *smt.Term {
		if strings.HasPrefix(a, "$") {
			v, err := strconv.ParseInt(a[1:], 0, 64)
			if err != nil {
				panic(engineError{"asm: immediate " + a})
			}
			return c.BV(uint64(v), 64)
		}
		if t, ok := slots[a]; ok {
			return t
		}
		if t, ok := regs[a]; ok {
			return t
		}
		panic(engineError{"asm: cannot read operand " + a})
	}
	write := func(a string, t *smt.Term) {
		if j, ok := resName[a]; ok {
			results[j] = t
			return
		}
		switch a {
		case "AX", "BX", "CX", "DX", "SI", "DI", "R8", "R9", "R10", "R11":
			regs[a] = t
			return
		}
		panic(engineError{"asm: cannot write operand " + a})
	}
	labels := map[string]int{}
	for pc, ins := range prog {
		if ins.label != "" {
			labels[ins.label] = pc
		}
	}
	for pc, steps := 0, 0; pc < len(prog); steps++ {
		if steps > 1000 {
			panic(engineError{"asm: step budget"})
		}
		ins := prog[pc]
		pc++
		if ins.label != "" {
			continue
		}
		switch ins.op {
		case "BSRQ":
			src := read(ins.args[0])
			zf = c.Cmp(smt.OEq, src, c.BV(0, 64))
			// destination is undefined when the source is zero: model it as a fresh value
			idx := c.Bin(smt.OSub, c.BV(63, 64), c.Clz(src))
			undef := i.ex.newEnvVar("bsr_undef", types.Uint64).(*sym).t
			write(ins.args[1], c.Ite(zf, undef, idx))
		case "JZ", "JEQ", "JNZ", "JNE":
			if zf == nil {
				panic(engineError{"asm: conditional jump without flags"})
			}
			fr.curInstr = nil
			taken := i.ex.Branch(fr, zf, "asmjz")
			if ins.op == "JNZ" || ins.op == "JNE" {
				taken = !taken
			}
			if taken {
				t, ok := labels[ins.args[0]]
				if !ok {
					panic(engineError{"asm: label " + ins.args[0]})
				}
				pc = t
			}
		case "JMP":
			t, ok := labels[ins.args[0]]
			if !ok {
				panic(engineError{"asm: label " + ins.args[0]})
			}
			pc = t
		case "SUBQ":
			r := c.Bin(smt.OSub, read(ins.args[1]), read(ins.args[0]))
			zf = c.Cmp(smt.OEq, r, c.BV(0, 64))
			write(ins.args[1], r)
		case "ADDQ":
			r := c.Bin(smt.OAdd, read(ins.args[1]), read(ins.args[0]))
			zf = c.Cmp(smt.OEq, r, c.BV(0, 64))
			write(ins.args[1], r)
		case "NEGQ":
			r := c.BVNeg(read(ins.args[0]))
			zf = c.Cmp(smt.OEq, r, c.BV(0, 64))
			write(ins.args[0], r)
		case "MOVQ":
			write(ins.args[1], read(ins.args[0]))
		case "RET":
			if len(results) == 1 {
				if results[0] == nil {
					panic(engineError{"asm: result not written"})
				}
				k, _ := basicKind(sig.Results().At(0).Type())
				return mkval(results[0], k)
			}
			panic(engineError{"asm: unsupported result arity"})
		default:
			panic(engineError{"asm: unsupported mnemonic " + ins.op})
		}
	}
	panic(engineError{"asm: fell off the end"})
}
