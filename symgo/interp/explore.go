package interp

// Path exploration: DART-style re-execution driven by decision prefixes, one solver session
// per path, a pool of in-process workers sharing a work stack.

import (
	"fmt"
	"math"
	"os"
	"sort"
	"strings"
	"sync"
	"time"

	"golang.org/x/tools/go/ssa"

	"verif/symgo/smt"
)

// Decision is one solver- or environment-decided choice on a path.
type Decision struct {
	K string `json:"k"`           // kind: br, idx, nil, conc, choice, sched, ...
	C int    `json:"c"`           // alternative taken
	V uint64 `json:"v,omitempty"` // candidate value for concretisation decisions
}

type TapeEntry struct {
	Name string `json:"name"`
	W    int    `json:"w"` // bit width; 0 = bool; -1 = choice
	Val  uint64 `json:"val"`
	term *smt.Term
}

type Failure struct {
	Kind      string      `json:"kind"` // assert | crash | deadlock
	ID        string      `json:"id"`
	Msg       string      `json:"msg,omitempty"`
	Tape      []TapeEntry `json:"tape"`
	Decisions []Decision  `json:"decisions"`
	Trace     []string    `json:"trace,omitempty"`
}

type Config struct {
	Workers        int
	QueryTimeoutMS int
	LoopCap        int   // solver-decided iterations per loop head per frame
	StepBudget     int64 // SSA instructions per path
	MaxPaths       int
	ConcMax        int  // max alternatives when concretising a value
	Sched          bool // explore schedules at visible operations
	SchedSkipPkgs  string // comma list of package paths whose lock/atomic/channel operations are not scheduling points
	SchedKinds     string // comma list of visible-operation kinds that are scheduling points (empty: all of rt,atomic,chan,select,lock,unlock)
	KeepScripts    int  // number of assertion query scripts kept for cross-checks
	SamplePaths    int  // passing paths whose model/tape is kept as samples
	Trace          bool
	NoSnapshot     bool   // run package initialisers on every path
	Setup          string // optional concrete set-up function of the harness package, run once after the initialisers (part of the snapshot)
	Params         map[string]int64 // harness parameters (rt.Param)
}

func (c *Config) defaults() {
	if c.Workers <= 0 {
		c.Workers = 8
	}
	if c.QueryTimeoutMS <= 0 {
		c.QueryTimeoutMS = 20000
	}
	if c.LoopCap <= 0 {
		c.LoopCap = 64
	}
	if c.StepBudget <= 0 {
		c.StepBudget = 20_000_000
	}
	if c.MaxPaths <= 0 {
		c.MaxPaths = 200000
	}
	if c.ConcMax <= 0 {
		c.ConcMax = 128
	}
	if c.KeepScripts < 0 {
		c.KeepScripts = 0
	}
	if c.SamplePaths <= 0 {
		c.SamplePaths = 3
	}
}

type Sample struct {
	Tape      []TapeEntry `json:"tape"`
	Decisions int         `json:"decisions"`
	Reached   []string    `json:"reached"`
	Asserts   []string    `json:"asserts"`
	End       string      `json:"end"`
}

// RunResult is what one harness exploration reports.
type RunResult struct {
	Harness       string         `json:"harness"`
	Paths         int            `json:"paths"`
	PathsEnded    map[string]int `json:"paths_ended"` // by reason
	Decisions     int            `json:"decisions"`   // solver/environment decided choices taken
	Forks         int            `json:"forks"`
	Queries       int            `json:"queries"`
	QSat          int            `json:"q_sat"`
	QUnsat        int            `json:"q_unsat"`
	QUnknown      int            `json:"q_unknown"`
	SolverSeconds float64        `json:"solver_s"`
	MaxQueryBytes int            `json:"max_query_bytes"`
	ModelReuse    int            `json:"model_reuse"` // branch sides decided by evaluating the current model
	AssertsProved map[string]int `json:"asserts_proved"`
	AssertsConc   map[string]int `json:"asserts_concrete"`
	Reached       map[string]int `json:"reached"`
	Failures      []Failure      `json:"failures"`
	Inconclusive  []string       `json:"inconclusive"`
	Funcs         map[string]int `json:"funcs"` // repo functions executed (calls)
	Instrs        int64          `json:"instrs"`
	WallSeconds   float64        `json:"wall_s"`
	Samples       []Sample       `json:"samples"`
	Scripts       []string       `json:"-"`
	Assumes       int            `json:"assumes"`
	MaxGoroutines int            `json:"max_goroutines"`
	Notes         []string       `json:"notes,omitempty"`
}

type workItem struct {
	prefix []Decision
	model  smt.Model
	pins   map[string]uint64 // inputs given concrete values on this path and its descendants
}

// Run is the shared state of one harness exploration.
type Run struct {
	pinned  map[string]bool
	cfg     Config
	mu      sync.Mutex
	cond    *sync.Cond
	stack   []workItem
	active  int
	stopped bool
	res     RunResult
	failSig map[string]bool
	incSig  map[string]bool
	tplOnce sync.Once
	tpl     *template
}

type pathEnd struct{ why string }
type killSentinel struct{}

// explorer is the per-path state.
type explorer struct {
	run     *Run
	ctx     *smt.Ctx
	solver  *smt.Solver
	prefix  []Decision
	pos     int
	decs    []Decision
	pc      []*smt.Term
	model   smt.Model
	modelOK bool
	// model handed over with the work item: valid once the prefix has been replayed
	pendingModel smt.Model
	ufs          []ufApp // applications of uninterpreted functions on this path (md5)
	pins         map[string]uint64
	ufOnly       bool
	tape    []TapeEntry
	reached []string
	asserts []string
	steps   int64
	trace   []string
	forks   int
	reuse   int
	assumes int
	// allocation log (C11)
	allocs      []*smt.Term
	allocBudget *smt.Term
	allocTotal  *smt.Term
	absAlloc    bool
	poolHavoc   bool
	template    bool // package-init template: nothing symbolic may happen
	pcSet       map[int]bool
	bounds      map[int]ubound
	known       int
	// outcome
	failures []Failure
	inconc   []string
	proved   map[string]int
	concOK   map[string]int
}

func (ex *explorer) tracef(format string, a ...interface{}) {
	if len(ex.trace) < 400 {
		ex.trace = append(ex.trace, fmt.Sprintf(format, a...))
	}
}

func (ex *explorer) inconclusive(msg string) {
	ex.inconc = append(ex.inconc, msg)
}

func (ex *explorer) record(d Decision) {
	ex.decs = append(ex.decs, d)
	ex.pos++
}

// replayed is called after a forced decision was re-applied.
func (ex *explorer) replayed() {
	if ex.pos == len(ex.prefix) && ex.pendingModel != nil {
		ex.model, ex.modelOK = ex.pendingModel, true
		ex.pendingModel = nil
	} else {
		ex.modelOK = false
	}
}

func (ex *explorer) queue(alt Decision, m smt.Model) {
	p := make([]Decision, len(ex.decs)+1)
	copy(p, ex.decs)
	p[len(ex.decs)] = alt
	ex.forks++
	ex.run.push(workItem{prefix: p, model: m, pins: ex.pins})
}

func (ex *explorer) assertPC(t *smt.Term) {
	ex.pc = append(ex.pc, t)
	if ex.pcSet == nil {
		ex.pcSet = map[int]bool{}
	}
	ex.addFacts(t)
	ex.addBound(t, true)
	ex.solver.Assert(t)
}

type ubound struct{ lo, hi uint64 }

// cmpConst recognises an unsigned comparison of a term with a constant:
// returns x, and the interval of x for which t is true.
func cmpConst(t *smt.Term) (x *smt.Term, tr ubound, ok bool) {
	if t.Sort != smt.SBool || len(t.Args) != 2 {
		return nil, ubound{}, false
	}
	a, b := t.Args[0], t.Args[1]
	if a.Sort != smt.SBV || a.W > 64 {
		return nil, ubound{}, false
	}
	max := ^uint64(0)
	if a.W < 64 {
		max = uint64(1)<<uint(a.W) - 1
	}
	switch t.Op {
	case smt.OUlt: // a < b
		if b.IsConst() && !a.IsConst() {
			if b.Val == 0 {
				return nil, ubound{}, false
			}
			return a, ubound{0, b.Val - 1}, true
		}
		if a.IsConst() && !b.IsConst() {
			if a.Val == max {
				return nil, ubound{}, false
			}
			return b, ubound{a.Val + 1, max}, true
		}
	case smt.OUle: // a <= b
		if b.IsConst() && !a.IsConst() {
			return a, ubound{0, b.Val}, true
		}
		if a.IsConst() && !b.IsConst() {
			return b, ubound{a.Val, max}, true
		}
	case smt.OEq:
		if b.IsConst() && !a.IsConst() {
			return a, ubound{b.Val, b.Val}, true
		}
		if a.IsConst() && !b.IsConst() {
			return b, ubound{a.Val, a.Val}, true
		}
	}
	return nil, ubound{}, false
}

// addBound narrows the known unsigned interval of a term from an asserted comparison.
func (ex *explorer) addBound(t *smt.Term, pos bool) {
	if t.Op == smt.OBNot {
		ex.addBound(t.Args[0], !pos)
		return
	}
	if t.Op == smt.OBAnd && pos {
		ex.addBound(t.Args[0], true)
		ex.addBound(t.Args[1], true)
		return
	}
	x, tr, ok := cmpConst(t)
	if !ok {
		return
	}
	if ex.bounds == nil {
		ex.bounds = map[int]ubound{}
	}
	max := ^uint64(0)
	if x.W < 64 {
		max = uint64(1)<<uint(x.W) - 1
	}
	b, have := ex.bounds[x.ID]
	if !have {
		b = ubound{0, max}
	}
	if pos {
		if tr.lo > b.lo {
			b.lo = tr.lo
		}
		if tr.hi < b.hi {
			b.hi = tr.hi
		}
	} else if t.Op != smt.OEq {
		// the complement of a one-sided interval is one-sided
		if tr.lo == 0 && tr.hi < max {
			if tr.hi+1 > b.lo {
				b.lo = tr.hi + 1
			}
		} else if tr.hi == max && tr.lo > 0 {
			if tr.lo-1 < b.hi {
				b.hi = tr.lo - 1
			}
		}
	}
	ex.bounds[x.ID] = b
}

// decideByBounds decides a comparison with a constant from the known interval, if possible.
func (ex *explorer) decideByBounds(c *smt.Term) (val, ok bool) {
	neg := false
	for c.Op == smt.OBNot {
		c = c.Args[0]
		neg = !neg
	}
	x, tr, isCmp := cmpConst(c)
	if !isCmp {
		return false, false
	}
	b, have := ex.bounds[x.ID]
	if !have {
		return false, false
	}
	if b.lo >= tr.lo && b.hi <= tr.hi {
		return !neg, true
	}
	if b.hi < tr.lo || b.lo > tr.hi {
		return neg, true
	}
	return false, false
}

// addFacts records the conjuncts of an asserted term, so that a later branch on a condition
// that is syntactically a known fact (or the negation of one) needs no solver query.
func (ex *explorer) addFacts(t *smt.Term) {
	ex.pcSet[t.ID] = true
	if t.Op == smt.OBAnd {
		ex.addFacts(t.Args[0])
		ex.addFacts(t.Args[1])
	}
	if t.Op == smt.OBNot && t.Args[0].Op == smt.OBOr {
		ex.addFacts(ex.ctx.Not(t.Args[0].Args[0]))
		ex.addFacts(ex.ctx.Not(t.Args[0].Args[1]))
	}
}

// evalModel evaluates t under the current model, if there is one.
func (ex *explorer) evalModel(t *smt.Term) (uint64, bool) {
	if !ex.modelOK {
		return 0, false
	}
	return ex.ctx.Eval(t, ex.model, map[int]uint64{})
}

func (ex *explorer) check(extra *smt.Term, wantModel bool) (smt.Result, smt.Model) {
	r, m := ex.solver.Check(extra, wantModel)
	if ex.solver.LastErr != "" {
		ex.inconclusive("solver error: " + ex.solver.LastErr)
		ex.solver.LastErr = ""
	}
	return r, m
}

// ensureModel makes sure a model of the path condition is available.
func (ex *explorer) ensureModel() bool {
	if ex.modelOK {
		return true
	}
	r, m := ex.check(nil, true)
	if r == smt.Sat {
		ex.model, ex.modelOK = m, true
		return true
	}
	if r == smt.Unsat {
		panic(pathEnd{"infeasible"})
	}
	return false
}

// Branch decides a symbolic condition; it returns the side taken and queues the other one
// if it is feasible too.
func (ex *explorer) Branch(fr *frame, c *smt.Term, kind string) bool {
	if c.IsConst() {
		return c.Val == 1
	}
	// a condition that is syntactically a known fact needs neither a decision nor a query
	if ex.pcSet[c.ID] {
		ex.known++
		return true
	}
	if ex.pcSet[ex.ctx.Not(c).ID] {
		ex.known++
		return false
	}
	if v, ok := ex.decideByBounds(c); ok {
		ex.known++
		return v
	}
	if fr != nil {
		fr.loopGuard(ex)
	}
	if ex.pos < len(ex.prefix) {
		d := ex.prefix[ex.pos]
		if d.K != kind {
			panic(engineError{fmt.Sprintf("replay divergence: expected decision %q, got %q at %d", d.K, kind, ex.pos)})
		}
		ex.record(d)
		taken := d.C == 1
		ex.replayed()
		if taken {
			ex.assertPC(c)
		} else {
			ex.assertPC(ex.ctx.Not(c))
		}
		return taken
	}
	var tOK, fOK bool
	var tKnown, fKnown bool
	if v, ok := ex.evalModel(c); ok {
		ex.reuse++
		if v == 1 {
			tOK, tKnown = true, true
		} else {
			fOK, fKnown = true, true
		}
	}
	var altModel smt.Model
	if !tKnown {
		r, m := ex.check(c, true)
		tOK = r != smt.Unsat
		if r == smt.Sat {
			if fKnown {
				altModel = m
			} else {
				// adopt it if we end up on the true side
				altModel = m
			}
		}
		if r == smt.Unknown {
			ex.inconclusive("solver unknown on branch feasibility (kept both sides)")
		}
	}
	if !fKnown {
		r, m := ex.check(ex.ctx.Not(c), true)
		fOK = r != smt.Unsat
		if r == smt.Sat {
			if tKnown {
				altModel = m
			} else if !tOK {
				altModel = m
			} else {
				// both sides were queried: we follow true with its model, alt gets this one
				ex.model, ex.modelOK = altModel, altModel != nil
				altModel = m
				tKnown = true // marks "model valid for the true side"
			}
		}
		if r == smt.Unknown {
			ex.inconclusive("solver unknown on branch feasibility (kept both sides)")
		}
	}
	var taken bool
	switch {
	case tOK && fOK:
		// follow the side the current model satisfies
		if fKnown && !tKnown {
			taken = false
			ex.queue(Decision{K: kind, C: 1}, altModel)
		} else {
			taken = true
			ex.queue(Decision{K: kind, C: 0}, altModel)
		}
	case tOK:
		taken = true
		if !tKnown {
			ex.model, ex.modelOK = altModel, altModel != nil
		}
	case fOK:
		taken = false
		if !fKnown {
			ex.model, ex.modelOK = altModel, altModel != nil
		}
	default:
		panic(pathEnd{"infeasible"})
	}
	d := Decision{K: kind}
	if taken {
		d.C = 1
		ex.assertPC(c)
	} else {
		ex.assertPC(ex.ctx.Not(c))
	}
	ex.record(d)
	return taken
}

// Choice is an environment choice among n alternatives (all are explored).
func (ex *explorer) Choice(n int, kind string) int {
	if n <= 1 {
		return 0
	}
	if ex.pos < len(ex.prefix) {
		d := ex.prefix[ex.pos]
		if d.K != kind {
			panic(engineError{fmt.Sprintf("replay divergence: expected decision %q, got %q at %d", d.K, kind, ex.pos)})
		}
		ex.record(d)
		ex.replayed()
		return d.C
	}
	var m smt.Model
	if ex.modelOK {
		m = ex.model
	}
	for alt := n - 1; alt >= 1; alt-- {
		ex.queue(Decision{K: kind, C: alt}, m)
	}
	ex.record(Decision{K: kind, C: 0})
	return 0
}

// Concretize forks over the feasible values of t and returns the one of this path.
func (ex *explorer) Concretize(fr *frame, t *smt.Term, kind string) uint64 {
	if t.IsConst() {
		return t.Val
	}
	for n := 0; ; n++ {
		if n > ex.run.cfg.ConcMax {
			ex.inconclusive("unwinding: more than ConcMax feasible values while concretising (" + kind + ")")
			panic(pathEnd{"unwind"})
		}
		if ex.pos < len(ex.prefix) {
			d := ex.prefix[ex.pos]
			if d.K != kind {
				panic(engineError{fmt.Sprintf("replay divergence: expected decision %q, got %q at %d", d.K, kind, ex.pos)})
			}
			ex.record(d)
			ex.replayed()
			eq := ex.ctx.Cmp(smt.OEq, t, ex.ctx.BV(d.V, t.W))
			if d.C == 1 {
				ex.assertPC(eq)
				return d.V
			}
			ex.assertPC(ex.ctx.Not(eq))
			continue
		}
		if !ex.ensureModel() {
			ex.inconclusive("solver unknown while concretising")
			panic(pathEnd{"unknown"})
		}
		v, ok := ex.evalModel(t)
		if !ok {
			panic(engineError{"cannot evaluate term to concretise (" + kind + ")"})
		}
		eq := ex.ctx.Cmp(smt.OEq, t, ex.ctx.BV(v, t.W))
		r, m := ex.check(ex.ctx.Not(eq), true)
		if r != smt.Unsat {
			if r == smt.Unknown {
				ex.inconclusive("solver unknown while concretising")
			}
			ex.queue(Decision{K: kind, C: 0, V: v}, m)
		}
		ex.record(Decision{K: kind, C: 1, V: v})
		ex.assertPC(eq)
		return v
	}
}

func (ex *explorer) Assume(c *smt.Term) {
	ex.assumes++
	if c.IsConst() {
		if c.Val == 0 {
			panic(pathEnd{"assume-false"})
		}
		return
	}
	if v, ok := ex.evalModel(c); ok && v == 1 {
		ex.reuse++
		ex.assertPC(c)
		return
	}
	ex.assertPC(c)
	ex.modelOK = false
	r, m := ex.check(nil, true)
	switch r {
	case smt.Unsat:
		panic(pathEnd{"assume-infeasible"})
	case smt.Sat:
		ex.model, ex.modelOK = m, true
	default:
		ex.inconclusive("solver unknown on assume")
	}
}

func (ex *explorer) snapshotTape(m smt.Model) []TapeEntry {
	out := make([]TapeEntry, len(ex.tape))
	for j, e := range ex.tape {
		out[j] = TapeEntry{Name: e.Name, W: e.W, Val: e.Val}
		if e.term != nil {
			if e.term.IsConst() {
				out[j].Val = e.term.Val
			} else if m != nil {
				v, _ := ex.ctx.Eval(e.term, m, map[int]uint64{})
				out[j].Val = v
			}
		}
	}
	return out
}

func (ex *explorer) fail(kind, id, msg string, m smt.Model) {
	ex.failures = append(ex.failures, Failure{Kind: kind, ID: id, Msg: msg, Tape: ex.snapshotTape(m),
		Decisions: append([]Decision(nil), ex.decs...), Trace: append([]string(nil), ex.trace...)})
}

// ufApp is one application of a function kept uninterpreted (MD5 of symbolic input): fresh
// output bytes for the given input bytes.
type ufApp struct {
	in, out []*smt.Term
	real    func([]byte) []byte
}

// refineUF makes a counterexample respect the real function behind an uninterpreted one.
// The model's inputs are run through the real function; if the model's outputs agree, or the
// query is still satisfiable with these inputs and the real outputs pinned, the (adjusted)
// model is a genuine counterexample. Otherwise this path fails for the uninterpreted function
// only: the candidate inputs (this model's and up to two more) are each re-executed from the
// start with those inputs concrete -- the real function is then computed, whichever path that
// takes -- and the assertion is left undecided on this path (reported inconclusive unless it
// turns out infeasible). At most maxPinned such re-executions are started per run.
const maxPinned = 12

func (ex *explorer) refineUF(extra *smt.Term, m smt.Model, id string) (smt.Model, bool) {
	if len(ex.ufs) == 0 || m == nil {
		return m, true
	}
	c := ex.ctx
	and := func(a, b *smt.Term) *smt.Term {
		if a == nil {
			return b
		}
		return c.And(a, b)
	}
	blocked := extra
	for round := 0; round < 3; round++ {
		memo := map[int]uint64{}
		pin, differs, agrees := c.Bool(true), c.Bool(false), true
		vars := map[string]*smt.Term{}
		for _, u := range ex.ufs {
			in := make([]byte, len(u.in))
			for j, t := range u.in {
				v, _ := c.Eval(t, m, memo)
				in[j] = byte(v)
				eq := c.Cmp(smt.OEq, t, c.BV(uint64(in[j]), t.W))
				pin = c.And(pin, eq)
				differs = c.Or(differs, c.Not(eq))
				collectVars(t, vars, map[int]bool{})
			}
			want := u.real(in)
			for j, t := range u.out {
				if v, _ := c.Eval(t, m, memo); byte(v) != want[j] {
					agrees = false
				}
				pin = c.And(pin, c.Cmp(smt.OEq, t, c.BV(uint64(want[j]), t.W)))
			}
		}
		if agrees {
			return m, true
		}
		// the same inputs with the real outputs, on this path
		r, m2 := ex.check(and(blocked, pin), true)
		if r == smt.Sat {
			return m2, true
		}
		// re-execute with these inputs concrete
		pins := map[string]uint64{}
		for k, v := range ex.pins {
			pins[k] = v
		}
		sig := ""
		for name, t := range vars {
			v, _ := c.Eval(t, m, memo)
			pins[name] = v
		}
		for _, e := range ex.tape {
			if v, ok := pins[e.Name]; ok {
				sig += fmt.Sprintf("%s=%d,", e.Name, v)
			}
		}
		if !ex.run.spawnPinned(sig, pins) {
			break
		}
		blocked = and(blocked, differs)
		r, m3 := ex.check(blocked, true)
		if r == smt.Unsat {
			if round == 0 {
				return nil, false // the only inputs on this path do not fail under the real function
			}
			break
		}
		if r != smt.Sat {
			break
		}
		m = m3
	}
	ex.inconclusive("assertion " + id + " fails on a path only for MD5 as an uninterpreted function; candidate inputs were re-executed with the real function")
	ex.ufOnly = true
	return nil, true
}

func collectVars(t *smt.Term, out map[string]*smt.Term, seen map[int]bool) {
	if seen[t.ID] {
		return
	}
	seen[t.ID] = true
	if t.Op == smt.OVar {
		out[t.Name] = t
		return
	}
	for _, a := range t.Args {
		collectVars(a, out, seen)
	}
}

// spawnPinned starts a re-execution from the start with the given inputs concrete (once per
// distinct assignment, at most maxPinned per run).
func (r *Run) spawnPinned(sig string, pins map[string]uint64) bool {
	r.mu.Lock()
	if r.pinned == nil {
		r.pinned = map[string]bool{}
	}
	if r.pinned[sig] {
		r.mu.Unlock()
		return true
	}
	if len(r.pinned) >= maxPinned {
		r.mu.Unlock()
		return false
	}
	r.pinned[sig] = true
	r.mu.Unlock()
	r.push(workItem{pins: pins})
	return true
}

// Assert checks that c holds for every value satisfying the path condition.
func (ex *explorer) Assert(id string, c *smt.Term, msg string) {
	ex.asserts = append(ex.asserts, id)
	if c.IsConst() {
		if c.Val == 1 {
			ex.concOK[id]++
			return
		}
		var m smt.Model
		if ex.ensureModel() {
			m = ex.model
		}
		m, feasible := ex.refineUF(nil, m, id)
		if !feasible {
			panic(pathEnd{"infeasible"}) // no input takes this path under the real function
		}
		if ex.ufOnly {
			ex.ufOnly = false
			panic(pathEnd{"uf-only"})
		}
		ex.fail("assert", id, msg, m)
		panic(pathEnd{"assert-failed"})
	}
	neg := ex.ctx.Not(c)
	if ex.run.cfg.KeepScripts > 0 {
		ex.run.keepScript(smt.Script(ex.ctx, ex.pc, neg))
	}
	r, m := ex.check(neg, true)
	switch r {
	case smt.Unsat:
		ex.proved[id]++
	case smt.Sat:
		// later assertions of the path are still judged independently (no assumption is added)
		if m2, feasible := ex.refineUF(neg, m, id); !feasible {
			ex.proved[id]++
		} else if ex.ufOnly {
			ex.ufOnly = false
		} else {
			ex.fail("assert", id, msg, m2)
		}
	default:
		ex.inconclusive("solver unknown on assertion " + id)
	}
}

func (ex *explorer) noteFloatToInt(fr *frame, x *smt.Term, w int, signed bool) {
	c := ex.ctx
	var lo, hi float64
	if signed {
		lo, hi = -math.Ldexp(1, w-1), math.Ldexp(1, w-1)
	} else {
		lo, hi = -1, math.Ldexp(1, w)
	}
	var in *smt.Term
	if signed {
		in = c.And(c.FCmp(smt.OFLe, c.FP(lo), x), c.FCmp(smt.OFLt, x, c.FP(hi)))
	} else {
		in = c.And(c.FCmp(smt.OFLt, c.FP(lo), x), c.FCmp(smt.OFLt, x, c.FP(hi)))
	}
	if !ex.Branch(fr, in, "f2i") {
		panic(engineError{"float->int conversion of an out-of-range value (implementation-defined in Go)"})
	}
}

// ---------------------------------------------------------------- run management

func (r *Run) push(w workItem) {
	r.mu.Lock()
	r.stack = append(r.stack, w)
	r.mu.Unlock()
	r.cond.Signal()
}

func (r *Run) note(s string) {
	r.mu.Lock()
	if !r.incSig["note:"+s] {
		r.incSig["note:"+s] = true
		r.res.Notes = append(r.res.Notes, s)
	}
	r.mu.Unlock()
}

func (r *Run) keepScript(s string) {
	r.mu.Lock()
	if len(r.res.Scripts) < r.cfg.KeepScripts {
		r.res.Scripts = append(r.res.Scripts, s)
	}
	r.mu.Unlock()
}

func (r *Run) pop() (workItem, bool) {
	r.mu.Lock()
	defer r.mu.Unlock()
	for {
		if r.stopped {
			return workItem{}, false
		}
		if n := len(r.stack); n > 0 {
			w := r.stack[n-1]
			r.stack = r.stack[:n-1]
			r.active++
			return w, true
		}
		if r.active == 0 {
			r.cond.Broadcast()
			return workItem{}, false
		}
		r.cond.Wait()
	}
}

func (r *Run) done() {
	r.mu.Lock()
	r.active--
	if r.active == 0 && len(r.stack) == 0 {
		r.cond.Broadcast()
	}
	r.mu.Unlock()
}

func (r *Run) merge(ex *explorer, end string, i *interpreter) {
	r.mu.Lock()
	defer r.mu.Unlock()
	res := &r.res
	res.Paths++
	res.PathsEnded[end]++
	res.Decisions += len(ex.decs)
	res.Forks += ex.forks
	res.ModelReuse += ex.reuse
	res.Assumes += ex.assumes
	res.Instrs += ex.steps
	if i != nil && i.sch != nil && len(i.sch.gs) > res.MaxGoroutines {
		res.MaxGoroutines = len(i.sch.gs)
	}
	for k, v := range ex.proved {
		res.AssertsProved[k] += v
	}
	for k, v := range ex.concOK {
		res.AssertsConc[k] += v
	}
	for _, l := range ex.reached {
		res.Reached[l]++
	}
	for _, f := range ex.failures {
		sig := f.Kind + "|" + f.ID
		if !r.failSig[sig] || len(res.Failures) < 20 {
			r.failSig[sig] = true
			if len(res.Failures) < 200 {
				res.Failures = append(res.Failures, f)
			}
		}
	}
	for _, m := range ex.inconc {
		if !r.incSig[m] {
			r.incSig[m] = true
			res.Inconclusive = append(res.Inconclusive, m)
		}
	}
	if len(res.Samples) < r.cfg.SamplePaths && len(ex.failures) == 0 && len(ex.tape) > 0 && (end == "done" || end == "stop") {
		var m smt.Model
		if ex.modelOK {
			m = ex.model
		}
		res.Samples = append(res.Samples, Sample{Tape: ex.snapshotTape(m), Decisions: len(ex.decs),
			Reached: append([]string(nil), ex.reached...), Asserts: uniq(ex.asserts), End: end})
	}
	if res.Paths >= r.cfg.MaxPaths && !r.stopped {
		r.stopped = true
		if !r.incSig["path budget"] {
			r.incSig["path budget"] = true
			res.Inconclusive = append(res.Inconclusive, fmt.Sprintf("path budget exhausted (%d paths)", res.Paths))
		}
		r.cond.Broadcast()
	}
}

func uniq(s []string) []string {
	m := map[string]bool{}
	var out []string
	for _, x := range s {
		if !m[x] {
			m[x] = true
			out = append(out, x)
		}
	}
	sort.Strings(out)
	return out
}

// Explore runs function fname of package pkg on all paths.
func Explore(prog *ssa.Program, pkg *ssa.Package, fname string, cfg Config) *RunResult {
	cfg.defaults()
	fn := pkg.Func(fname)
	if fn == nil {
		return &RunResult{Harness: fname, Inconclusive: []string{"harness function not found: " + fname}}
	}
	r := &Run{cfg: cfg, failSig: map[string]bool{}, incSig: map[string]bool{}}
	r.cond = sync.NewCond(&r.mu)
	r.res = RunResult{Harness: pkg.Pkg.Path() + "." + fname, PathsEnded: map[string]int{}, AssertsProved: map[string]int{},
		AssertsConc: map[string]int{}, Reached: map[string]int{}, Funcs: map[string]int{}}
	r.stack = []workItem{{}}
	t0 := time.Now()
	var wg sync.WaitGroup
	var statsMu sync.Mutex
	for w := 0; w < cfg.Workers; w++ {
		wg.Add(1)
		w := w
		go func() {
			defer wg.Done()
			solver := smt.NewZ3(cfg.QueryTimeoutMS)
			defer solver.Close()
			if lp := os.Getenv("SYMGO_SMTLOG"); lp != "" {
				if f, err := os.Create(fmt.Sprintf("%s.%d", lp, w)); err == nil {
					solver.Log = f
					defer f.Close()
				}
			}
			funcs := map[*ssa.Function]int{}
			wk := &workerCtx{funcs: funcs, free: map[int][]*bigBuf{}}
			for {
				item, ok := r.pop()
				if !ok {
					break
				}
				runPath(r, prog, pkg, fn, item, solver, wk)
				r.done()
			}
			statsMu.Lock()
			st := solver.Stats
			r.res.Queries += st.Queries
			r.res.QSat += st.Sat
			r.res.QUnsat += st.Unsat
			r.res.QUnknown += st.Unknown
			r.res.SolverSeconds += st.Time.Seconds()
			if st.MaxQueryBytes > r.res.MaxQueryBytes {
				r.res.MaxQueryBytes = st.MaxQueryBytes
			}
			for f, n := range funcs {
				if f.Pkg != nil && strings.HasPrefix(f.Pkg.Pkg.Path(), "github.com/netflix/rend") && !strings.Contains(f.Pkg.Pkg.Path(), "zz_verif") && !strings.HasPrefix(f.Name(), "zz") {
					r.res.Funcs[f.String()] += n
				}
			}
			statsMu.Unlock()
		}()
	}
	wg.Wait()
	r.res.WallSeconds = time.Since(t0).Seconds()
	return &r.res
}

func runPath(r *Run, prog *ssa.Program, pkg *ssa.Package, fn *ssa.Function, item workItem, solver *smt.Solver, wk *workerCtx) {
	ex := &explorer{run: r, ctx: smt.NewCtx(), solver: solver, prefix: item.prefix, pins: item.pins, proved: map[string]int{}, concOK: map[string]int{}}
	if len(item.prefix) > 0 {
		ex.pendingModel = item.model
	}
	solver.LastErr = ""
	solver.Begin(ex.ctx)
	if wk.tpl == nil && !r.cfg.NoSnapshot {
		r.tplOnce.Do(func() {
			r.tpl = buildTemplate(r, prog, pkg, wk)
			if !r.tpl.ok {
				r.res.Notes = append(r.res.Notes, "init snapshot unavailable (initialisers run on every path): "+r.tpl.why)
			}
		})
		wk.tpl = r.tpl
	}
	i := newInterpreter(prog, ex, wk)
	defer i.releaseBig()
	end := "done"
	func() {
		defer func() {
			if p := recover(); p != nil {
				switch p := p.(type) {
				case pathEnd:
					end = p.why
				case engineError:
					end = "engine-error"
					ex.inconclusive("engine: " + p.msg)
				case killSentinel:
					end = "killed"
				default:
					// a panic that left the harness function: process crash
					end = "crash"
					var m smt.Model
					if ex.ensureModelNoPanic() {
						m = ex.model
					}
					ex.fail("crash", "crash:main", panicString(p), m)
				}
			}
		}()
		defer i.sch.killAll()
		if wk.tpl != nil && wk.tpl.ok {
			wk.tpl.instantiate(i)
		} else {
			i.runInits(pkg)
			if r.cfg.Setup != "" {
				call(i, nil, 0, pkg.Func(r.cfg.Setup), nil)
			}
		}
		call(i, nil, 0, fn, nil)
		i.sch.mainDone(i)
	}()
	r.merge(ex, end, i)
}

func (ex *explorer) ensureModelNoPanic() (ok bool) {
	defer func() {
		if recover() != nil {
			ok = false
		}
	}()
	return ex.ensureModel()
}

func panicString(p interface{}) string {
	switch p := p.(type) {
	case targetPanic:
		return "panic: " + toString(p.v)
	case error:
		return "runtime error: " + p.Error()
	case string:
		return "panic: " + p
	}
	return fmt.Sprintf("panic: %v", p)
}

// ---------------------------------------------------------------- allocation log (C11)

// noteAlloc is called for every make([]T, n) with a symbolic size before the size is
// concretised: the size enters the allocation log and, when the harness has set a budget,
// the budget is asserted for every value of the size.
func (ex *explorer) noteAlloc(fr *frame, n *smt.Term, elemSize uint64) {
	c := ex.ctx
	n = c.ZExt(n, 64)
	ex.allocs = append(ex.allocs, n)
	if ex.allocBudget == nil {
		return
	}
	// a negative or huge count panics in makeslice before allocating
	sane := c.Cmp(smt.OUle, n, c.BV(1<<40, 64))
	bytes := c.Bin(smt.OMul, n, c.BV(elemSize, 64))
	tot := c.Bin(smt.OAdd, ex.allocTotal, bytes)
	ok := c.Or(c.Not(sane), c.Cmp(smt.OUle, tot, ex.allocBudget))
	ex.Assert("alloc-budget", ok, "allocation exceeds the budget the frame consistently declares")
	ex.allocTotal = tot
}

func (ex *explorer) noteAllocConcrete(bytes uint64) {
	if ex.allocBudget == nil {
		return
	}
	c := ex.ctx
	ex.allocTotal = c.Bin(smt.OAdd, ex.allocTotal, c.BV(bytes, 64))
	ok := c.Cmp(smt.OUle, ex.allocTotal, ex.allocBudget)
	if !ok.IsTrue() {
		ex.Assert("alloc-budget", ok, "allocation exceeds the budget the frame consistently declares")
	}
}

// provenExact asks the solver whether the 64-bit signed term always lies in [-2^53, 2^53],
// i.e. whether its conversion to float64 is exact.
func (ex *explorer) provenExact(t *smt.Term) bool {
	if ex.template {
		return false
	}
	c := ex.ctx
	lim := uint64(1) << 53
	in := c.And(c.Cmp(smt.OSle, c.BV(-lim, 64), t), c.Cmp(smt.OSle, t, c.BV(lim, 64)))
	if in.IsTrue() {
		return true
	}
	r, _ := ex.check(c.Not(in), false)
	return r == smt.Unsat
}
