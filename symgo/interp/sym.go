package interp

// Symbolic scalars: a *sym wraps an SMT term together with the Go basic kind it stands
// for. Every Go scalar is either a native Go value (concrete) or a *sym.

import (
	"fmt"
	"go/token"
	"go/types"
	"math"

	"verif/symgo/smt"
)

type sym struct {
	t *smt.Term
	k types.BasicKind
	// intOrig != nil: this float64 is the exact image of that 64-bit signed integer term
	// (|value| <= 2^53 proven by the solver); min/ceil/floor/compare/convert-back are then done
	// on the integer and the floating-point theory is not needed.
	intOrig *smt.Term
}

func (s *sym) String() string { return fmt.Sprintf("sym<%d:t%d>", s.k, s.t.ID) }

// symstr is a string with at least one symbolic byte (concrete length).
type symstr []value

// symptr is the address of arr[idx] for a symbolic idx (bounds already established).
type symptr struct {
	arr []value
	idx *smt.Term // 64-bit
	// aggregate cells (symagg.go): the element type, or the type of the part at path
	elt  types.Type
	path []int
}

// absBytes is a []byte whose length is symbolic and whose elements may not be accessed.
type absBytes struct{ n *sym }

// engineError ends the path as inconclusive: the engine cannot execute something.
type engineError struct{ msg string }

func (e engineError) Error() string { return "symgo: " + e.msg }

func unsupported(format string, args ...interface{}) {
	panic(engineError{fmt.Sprintf(format, args...)})
}

func isSym(v value) bool { _, ok := v.(*sym); return ok }

func basicKind(t types.Type) (types.BasicKind, bool) {
	b, ok := t.Underlying().(*types.Basic)
	if !ok {
		return 0, false
	}
	k := b.Kind()
	switch k {
	case types.UntypedBool:
		k = types.Bool
	case types.UntypedInt:
		k = types.Int
	case types.UntypedRune:
		k = types.Int32
	case types.UntypedFloat:
		k = types.Float64
	}
	return k, true
}

// kindInfo returns bit width (0 for bool), signedness and float-ness of a basic kind.
func kindInfo(k types.BasicKind) (w int, signed, float, ok bool) {
	switch k {
	case types.Bool:
		return 0, false, false, true
	case types.Int8:
		return 8, true, false, true
	case types.Int16:
		return 16, true, false, true
	case types.Int32:
		return 32, true, false, true
	case types.Int64, types.Int:
		return 64, true, false, true
	case types.Uint8:
		return 8, false, false, true
	case types.Uint16:
		return 16, false, false, true
	case types.Uint32:
		return 32, false, false, true
	case types.Uint64, types.Uint, types.Uintptr:
		return 64, false, false, true
	case types.Float64:
		return 64, true, true, true
	}
	return 0, false, false, false
}

func valueKind(v value) types.BasicKind {
	switch v := v.(type) {
	case *sym:
		return v.k
	case bool:
		return types.Bool
	case int:
		return types.Int
	case int8:
		return types.Int8
	case int16:
		return types.Int16
	case int32:
		return types.Int32
	case int64:
		return types.Int64
	case uint:
		return types.Uint
	case uint8:
		return types.Uint8
	case uint16:
		return types.Uint16
	case uint32:
		return types.Uint32
	case uint64:
		return types.Uint64
	case uintptr:
		return types.Uintptr
	case float64:
		return types.Float64
	}
	return types.Invalid
}

// concreteOfKind builds the native Go value of kind k from raw bits.
func concreteOfKind(k types.BasicKind, u uint64) value {
	switch k {
	case types.Bool:
		return u != 0
	case types.Int:
		return int(u)
	case types.Int8:
		return int8(u)
	case types.Int16:
		return int16(u)
	case types.Int32:
		return int32(u)
	case types.Int64:
		return int64(u)
	case types.Uint:
		return uint(u)
	case types.Uint8:
		return uint8(u)
	case types.Uint16:
		return uint16(u)
	case types.Uint32:
		return uint32(u)
	case types.Uint64:
		return u
	case types.Uintptr:
		return uintptr(u)
	case types.Float64:
		return math.Float64frombits(u)
	}
	panic(engineError{fmt.Sprintf("concreteOfKind %d", k)})
}

func rawBits(v value) uint64 {
	switch x := v.(type) {
	case bool:
		if x {
			return 1
		}
		return 0
	case float64:
		return math.Float64bits(x)
	}
	return asUint64sp(v)
}

func asUint64sp(x value) uint64 {
	switch x := x.(type) {
	case int:
		return uint64(x)
	case int8:
		return uint64(x)
	case int16:
		return uint64(x)
	case int32:
		return uint64(x)
	case int64:
		return uint64(x)
	case uint:
		return uint64(x)
	case uint8:
		return uint64(x)
	case uint16:
		return uint64(x)
	case uint32:
		return uint64(x)
	case uint64:
		return x
	case uintptr:
		return uint64(x)
	}
	panic(engineError{fmt.Sprintf("asUint64sp: %T", x)})
}

// term lifts a scalar value (concrete or symbolic) to a term.
func (i *interpreter) term(v value) *smt.Term {
	c := i.ex.ctx
	switch x := v.(type) {
	case *sym:
		return x.t
	case bool:
		return c.Bool(x)
	case float64:
		return c.FP(x)
	}
	k := valueKind(v)
	w, _, _, ok := kindInfo(k)
	if !ok {
		panic(engineError{fmt.Sprintf("term: not a scalar: %T", v)})
	}
	return c.BV(asUint64sp(v), w)
}

// mkval wraps a term as a value of kind k, concretising constants.
func mkval(t *smt.Term, k types.BasicKind) value {
	if t.IsConst() {
		return concreteOfKind(k, t.Val)
	}
	return &sym{t: t, k: k}
}

func (i *interpreter) symBinop(fr *frame, op token.Token, tx, ty types.Type, x, y value) value {
	c := i.ex.ctx
	k, ok := basicKind(tx)
	if !ok {
		// comparison of composite values with symbolic leaves
		switch op {
		case token.EQL:
			return i.symEquals(tx, x, y)
		case token.NEQ:
			r := i.symEquals(tx, x, y)
			if b, ok := r.(bool); ok {
				return !b
			}
			return mkval(c.Not(r.(*sym).t), types.Bool)
		}
		panic(engineError{"symBinop on non-basic type " + tx.String()})
	}
	if k == types.String {
		return i.symStringOp(op, x, y)
	}
	w, signed, float, ok := kindInfo(k)
	if !ok {
		panic(engineError{"symBinop: kind of " + tx.String()})
	}
	a := i.term(x)
	if float {
		b := i.term(y)
		if ao, bo := intOrigOf(c, x), intOrigOf(c, y); ao != nil && bo != nil {
			switch op {
			case token.LSS:
				return mkval(c.Cmp(smt.OSlt, ao, bo), types.Bool)
			case token.LEQ:
				return mkval(c.Cmp(smt.OSle, ao, bo), types.Bool)
			case token.GTR:
				return mkval(c.Cmp(smt.OSlt, bo, ao), types.Bool)
			case token.GEQ:
				return mkval(c.Cmp(smt.OSle, bo, ao), types.Bool)
			case token.EQL:
				return mkval(c.Cmp(smt.OEq, ao, bo), types.Bool)
			case token.NEQ:
				return mkval(c.Not(c.Cmp(smt.OEq, ao, bo)), types.Bool)
			}
		}
		switch op {
		case token.ADD:
			return mkval(c.FBin(smt.OFAdd, a, b), k)
		case token.SUB:
			return mkval(c.FBin(smt.OFSub, a, b), k)
		case token.MUL:
			return mkval(c.FBin(smt.OFMul, a, b), k)
		case token.QUO:
			return mkval(c.FBin(smt.OFDiv, a, b), k)
		case token.LSS:
			return mkval(c.FCmp(smt.OFLt, a, b), types.Bool)
		case token.LEQ:
			return mkval(c.FCmp(smt.OFLe, a, b), types.Bool)
		case token.GTR:
			return mkval(c.FCmp(smt.OFLt, b, a), types.Bool)
		case token.GEQ:
			return mkval(c.FCmp(smt.OFLe, b, a), types.Bool)
		case token.EQL:
			return mkval(c.FCmp(smt.OFEq, a, b), types.Bool)
		case token.NEQ:
			return mkval(c.Not(c.FCmp(smt.OFEq, a, b)), types.Bool)
		}
		panic(engineError{"float op " + op.String()})
	}
	if w == 0 { // bool
		b := i.term(y)
		switch op {
		case token.EQL:
			return mkval(c.Cmp(smt.OEq, a, b), types.Bool)
		case token.NEQ:
			return mkval(c.Not(c.Cmp(smt.OEq, a, b)), types.Bool)
		}
		panic(engineError{"bool op " + op.String()})
	}
	var b *smt.Term
	if op == token.SHL || op == token.SHR {
		ky, _ := basicKind(ty)
		wy, sy, _, _ := kindInfo(ky)
		b = i.term(y)
		if sy {
			// negative shift count panics
			neg := c.Cmp(smt.OSlt, b, c.BV(0, wy))
			if i.ex.Branch(fr, neg, "shiftneg") {
				panic("negative shift amount")
			}
		}
		if wy > w {
			big := c.Not(c.Cmp(smt.OUlt, b, c.BV(uint64(w), wy)))
			b = c.Ite(big, c.BV(uint64(w), w), c.Extract(b, w-1, 0))
		} else {
			b = c.ZExt(b, w)
		}
	} else {
		b = i.term(y)
	}
	bin := func(o smt.Op) value { return mkval(c.Bin(o, a, b), k) }
	cmp := func(s, u smt.Op, swap, neg bool) value {
		o := u
		if signed {
			o = s
		}
		p, q := a, b
		if swap {
			p, q = q, p
		}
		r := c.Cmp(o, p, q)
		if neg {
			r = c.Not(r)
		}
		return mkval(r, types.Bool)
	}
	switch op {
	case token.ADD:
		return bin(smt.OAdd)
	case token.SUB:
		return bin(smt.OSub)
	case token.MUL:
		return bin(smt.OMul)
	case token.QUO, token.REM:
		if !b.IsConst() {
			if i.ex.Branch(fr, c.Cmp(smt.OEq, b, c.BV(0, w)), "divzero") {
				panic("integer divide by zero")
			}
		} else if b.Val == 0 {
			panic("integer divide by zero")
		}
		switch {
		case op == token.QUO && signed:
			return bin(smt.OSDiv)
		case op == token.QUO:
			return bin(smt.OUDiv)
		case signed:
			return bin(smt.OSRem)
		}
		return bin(smt.OURem)
	case token.AND:
		return bin(smt.OAnd)
	case token.OR:
		return bin(smt.OOr)
	case token.XOR:
		return bin(smt.OXor)
	case token.AND_NOT:
		return mkval(c.Bin(smt.OAnd, a, c.BVNot(b)), k)
	case token.SHL:
		return bin(smt.OShl)
	case token.SHR:
		if signed {
			return bin(smt.OAShr)
		}
		return bin(smt.OLShr)
	case token.EQL:
		return mkval(c.Cmp(smt.OEq, a, b), types.Bool)
	case token.NEQ:
		return mkval(c.Not(c.Cmp(smt.OEq, a, b)), types.Bool)
	case token.LSS:
		return cmp(smt.OSlt, smt.OUlt, false, false)
	case token.LEQ:
		return cmp(smt.OSle, smt.OUle, false, false)
	case token.GTR:
		return cmp(smt.OSlt, smt.OUlt, true, false)
	case token.GEQ:
		return cmp(smt.OSle, smt.OUle, true, false)
	}
	panic(engineError{"symBinop: op " + op.String()})
}

func (i *interpreter) symUnop(op token.Token, x *sym) value {
	c := i.ex.ctx
	_, _, float, _ := kindInfo(x.k)
	switch op {
	case token.NOT:
		return mkval(c.Not(x.t), types.Bool)
	case token.SUB:
		if float {
			return mkval(c.FUn(smt.OFNeg, x.t), x.k)
		}
		return mkval(c.BVNeg(x.t), x.k)
	case token.XOR:
		return mkval(c.BVNot(x.t), x.k)
	}
	panic(engineError{"symUnop " + op.String()})
}

func (i *interpreter) symConv(fr *frame, tdst, tsrc types.Type, x *sym) value {
	c := i.ex.ctx
	kd, ok := basicKind(tdst)
	if !ok {
		panic(engineError{"symConv to " + tdst.String()})
	}
	if kd == types.String {
		// string(rune) of a symbolic value
		panic(engineError{"symConv: integer -> string of symbolic value"})
	}
	if kd == types.Float32 {
		panic(engineError{"symConv: float32 unsupported"})
	}
	wd, _, fd, ok := kindInfo(kd)
	if !ok {
		panic(engineError{"symConv to " + tdst.String()})
	}
	ws, ss, fs, _ := kindInfo(x.k)
	switch {
	case fs && fd:
		return x
	case fd:
		r := mkval(c.FFromInt(x.t, ss), kd)
		if rs, ok := r.(*sym); ok {
			var wide *smt.Term
			if ss {
				wide = c.SExt(x.t, 64)
			} else if ws < 64 {
				wide = c.ZExt(x.t, 64)
			}
			if wide != nil && i.ex.provenExact(wide) {
				rs.intOrig = wide
			}
		}
		return r
	case fs:
		_, sd, _, _ := kindInfo(kd)
		if x.intOrig != nil && wd == 64 && sd {
			return mkval(x.intOrig, kd)
		}
		// Go leaves out-of-range float->int conversions implementation-defined; the check
		// makes such a path visible instead of guessing.
		i.ex.noteFloatToInt(fr, x.t, wd, sd)
		return mkval(c.FToInt(x.t, wd, sd), kd)
	}
	if ws == 0 || wd == 0 {
		panic(engineError{"symConv bool"})
	}
	var t *smt.Term
	switch {
	case wd <= ws:
		t = c.Extract(x.t, wd-1, 0)
	case ss:
		t = c.SExt(x.t, wd)
	default:
		t = c.ZExt(x.t, wd)
	}
	return mkval(t, kd)
}

// symEquals compares two values of static type t whose leaves may be symbolic; the result
// is a bool or a *sym (Bool).
func (i *interpreter) symEquals(t types.Type, x, y value) value {
	c := i.ex.ctx
	switch ut := t.Underlying().(type) {
	case *types.Basic:
		if ut.Kind() == types.String {
			return i.symStringOp(token.EQL, x, y)
		}
		if !isSym(x) && !isSym(y) {
			return equals(t, x, y)
		}
		_, _, float, _ := kindInfo(valueKind(x))
		if float {
			return mkval(c.FCmp(smt.OFEq, i.term(x), i.term(y)), types.Bool)
		}
		return mkval(c.Cmp(smt.OEq, i.term(x), i.term(y)), types.Bool)
	case *types.Struct:
		xs, ys := x.(structure), y.(structure)
		acc := c.Bool(true)
		for f := 0; f < ut.NumFields(); f++ {
			if ut.Field(f).Name() == "_" {
				continue
			}
			acc = c.And(acc, i.term(i.symEquals(ut.Field(f).Type(), xs[f], ys[f])))
		}
		return mkval(acc, types.Bool)
	case *types.Array:
		xs, ys := x.(array), y.(array)
		acc := c.Bool(true)
		for j := range xs {
			acc = c.And(acc, i.term(i.symEquals(ut.Elem(), xs[j], ys[j])))
		}
		return mkval(acc, types.Bool)
	case *types.Interface:
		xi, yi := x.(iface), y.(iface)
		if xi.t == nil || yi.t == nil {
			return xi.t == nil && yi.t == nil
		}
		if !types.Identical(xi.t, yi.t) {
			return false
		}
		return i.symEquals(xi.t, xi.v, yi.v)
	}
	return eqnil(t, x, y)
}

// containsSym reports whether a (possibly composite) comparable value has a symbolic leaf.
func containsSym(v value) bool {
	switch x := v.(type) {
	case *sym, symstr:
		return true
	case structure:
		for _, f := range x {
			if containsSym(f) {
				return true
			}
		}
	case array:
		for _, f := range x {
			if containsSym(f) {
				return true
			}
		}
	case iface:
		return containsSym(x.v)
	}
	return false
}

// ---- strings with symbolic bytes

func strCells(v value) []value {
	switch s := v.(type) {
	case string:
		r := make([]value, len(s))
		for j := 0; j < len(s); j++ {
			r[j] = s[j]
		}
		return r
	case symstr:
		return []value(s)
	}
	panic(engineError{fmt.Sprintf("strCells: %T", v)})
}

// mkstr builds a string value from byte cells.
func mkstr(cells []value) value {
	forceBytes(cells)
	for _, c := range cells {
		if isSym(c) {
			return symstr(append([]value(nil), cells...))
		}
	}
	b := make([]byte, len(cells))
	for j, c := range cells {
		b[j] = c.(byte)
	}
	return string(b)
}

func (i *interpreter) symStringOp(op token.Token, x, y value) value {
	c := i.ex.ctx
	a, b := strCells(x), strCells(y)
	switch op {
	case token.ADD:
		return mkstr(append(append([]value{}, a...), b...))
	case token.EQL, token.NEQ:
		var r *smt.Term
		if len(a) != len(b) {
			r = c.Bool(false)
		} else {
			r = c.Bool(true)
			for j := range a {
				r = c.And(r, c.Cmp(smt.OEq, i.term(a[j]), i.term(b[j])))
			}
		}
		if op == token.NEQ {
			r = c.Not(r)
		}
		return mkval(r, types.Bool)
	case token.LSS, token.LEQ, token.GTR, token.GEQ:
		if op == token.GTR || op == token.GEQ {
			a, b = b, a
		}
		// lexicographic a < b (or <=), built from the end
		n := len(a)
		if len(b) < n {
			n = len(b)
		}
		var r *smt.Term
		if op == token.LSS || op == token.GTR {
			r = c.Bool(len(a) < len(b))
		} else {
			r = c.Bool(len(a) <= len(b))
		}
		for j := n - 1; j >= 0; j-- {
			aj, bj := i.term(a[j]), i.term(b[j])
			r = c.Ite(c.Cmp(smt.OEq, aj, bj), r, c.Cmp(smt.OUlt, aj, bj))
		}
		return mkval(r, types.Bool)
	}
	panic(engineError{"symStringOp " + op.String()})
}

// bytesEqTerm is the fork-free equality of two byte cell vectors.
func (i *interpreter) bytesEqTerm(a, b []value) *smt.Term {
	c := i.ex.ctx
	if len(a) != len(b) {
		return c.Bool(false)
	}
	r := c.Bool(true)
	for j := range a {
		r = c.And(r, c.Cmp(smt.OEq, i.term(a[j]), i.term(b[j])))
	}
	return r
}

// symLoad reads arr[idx] as an ite chain (scalar cells of one kind).
func (i *interpreter) symLoad(p symptr) value {
	if p.elt != nil {
		return i.symLoadAgg(p)
	}
	c := i.ex.ctx
	k := types.Invalid
	for _, cell := range p.arr {
		if k = valueKind(cell); k != types.Invalid {
			break
		}
	}
	if k == types.Invalid {
		panic(engineError{"symbolic index into non-scalar cells"})
	}
	res := i.term(p.arr[len(p.arr)-1])
	for j := len(p.arr) - 2; j >= 0; j-- {
		res = c.Ite(c.Cmp(smt.OEq, p.idx, c.BV(uint64(j), 64)), i.term(p.arr[j]), res)
	}
	return mkval(res, k)
}

func (i *interpreter) symStore(p symptr, v value) {
	if p.elt != nil {
		i.symStoreAgg(p, v)
		return
	}
	c := i.ex.ctx
	k := valueKind(v)
	if k == types.Invalid {
		panic(engineError{"symbolic index store of non-scalar"})
	}
	vt := i.term(v)
	for j := range p.arr {
		p.arr[j] = mkval(c.Ite(c.Cmp(smt.OEq, p.idx, c.BV(uint64(j), 64)), vt, i.term(p.arr[j])), k)
	}
}

func scalarCells(a []value) bool {
	for _, c := range a {
		if valueKind(c) == types.Invalid {
			return false
		}
	}
	return true
}

// intOrigOf returns the exact integer a float64 value stands for, if known.
func intOrigOf(c *smt.Ctx, v value) *smt.Term {
	switch x := v.(type) {
	case *sym:
		return x.intOrig
	case float64:
		if x == float64(int64(x)) && x > -9e15 && x < 9e15 {
			return c.BV(uint64(int64(x)), 64)
		}
	}
	return nil
}
