package interp

// Glue between the forked interpreter and the symbolic layer: interpreter construction,
// package initialisation policy, concretisation points, slices/maps/strings with symbolic
// content, panic classification.

import (
	"runtime/debug"
	"os"
	"fmt"
	"go/token"
	"go/types"
	"runtime"
	"sort"
	"strings"
	"unsafe"
	"unicode/utf8"

	"golang.org/x/tools/go/ssa"

	"verif/symgo/smt"
)

// packages whose Go source is interpreted (everything else must be reached through a model)
var interpretedStd = map[string]bool{
	"io": true, "bufio": true, "bytes": true, "strconv": true, "sort": true, "encoding/binary": true,
	"math": true, "math/bits": true, "hash/fnv": true, "unicode/utf8": true, "strings": true, "errors": true,
	"unicode": true, "hash": true, "internal/bytealg": true, "slices": true, "cmp": true, "internal/stringslite": true,
	"internal/itoa": true, "container/list": true, "internal/byteorder": true, "hash/crc32": true, "math/rand": false,
	"internal/race": true, "unicode/utf16": true, "iter": true, "time": true,
}

// std packages whose init is executed
var initStd = map[string]bool{
	"io": true, "bufio": true, "bytes": true, "strconv": true, "sort": true, "encoding/binary": true,
	"math": true, "math/bits": true, "hash/fnv": true, "unicode/utf8": true, "strings": true,
	"hash": true, "slices": true, "cmp": true, "container/list": true,
}

func repoPkg(path string) bool { return strings.HasPrefix(path, "github.com/netflix/rend") }

func interpretedPkg(path string) bool { return repoPkg(path) || interpretedStd[path] }

// workerCtx is per-worker state that survives paths.
type workerCtx struct {
	funcs map[*ssa.Function]int
	free  map[int][]*bigBuf // recycled cell vectors of big arrays, by length
	all   []*bigBuf         // sorted by address
	minLo uintptr
	maxHi uintptr
	tpl   *template
	arena []value
}

// bigBuf is the cell vector of an array of bigArrayLen or more elements. Package initialisers
// allocate ~60 histogram rings of 32768 cells on every path; allocating (page faults) or
// clearing (write barriers) 30 MB per path dominated everything, so the vectors are recycled
// between the paths of a worker and cleared only if a path could have written to them: every
// way of writing a cell (IndexAddr, copy/append, externals receiving the slice) marks the
// vector dirty by address lookup (Go's heap objects do not move).
type bigBuf struct {
	cells  []value
	lo, hi uintptr
	dirty  bool
}

const bigArrayLen = 4096

func (i *interpreter) bigAlloc(n int) []value {
	wk := i.wk
	var b *bigBuf
	if l := wk.free[n]; len(l) > 0 {
		b = l[len(l)-1]
		wk.free[n] = l[:len(l)-1]
		if b.dirty {
			clear(b.cells)
			b.dirty = false
		}
	} else {
		b = &bigBuf{cells: make([]value, n)}
		b.lo = uintptr(unsafe.Pointer(&b.cells[0]))
		b.hi = b.lo + uintptr(n)*unsafe.Sizeof(b.cells[0])
		k := sort.Search(len(wk.all), func(j int) bool { return wk.all[j].lo > b.lo })
		wk.all = append(wk.all, nil)
		copy(wk.all[k+1:], wk.all[k:])
		wk.all[k] = b
		if wk.minLo == 0 || b.lo < wk.minLo {
			wk.minLo = b.lo
		}
		if b.hi > wk.maxHi {
			wk.maxHi = b.hi
		}
	}
	i.bigUsed = append(i.bigUsed, b)
	return b.cells
}

// touch marks the big vector that cells belongs to (if any) as possibly written.
func (i *interpreter) touch(cells []value) {
	if cap(cells) == 0 {
		return
	}
	p := uintptr(unsafe.Pointer(unsafe.SliceData(cells)))
	wk := i.wk
	if p < wk.minLo || p >= wk.maxHi {
		return
	}
	k := sort.Search(len(wk.all), func(j int) bool { return wk.all[j].hi > p })
	if k < len(wk.all) && wk.all[k].lo <= p {
		wk.all[k].dirty = true
	}
}

// touchArgs marks every big vector reachable directly from call arguments.
func (i *interpreter) touchArgs(args []value) {
	for _, a := range args {
		switch x := a.(type) {
		case []value:
			i.touch(x)
		case *value:
			if x != nil {
				if arr, ok := (*x).(array); ok {
					i.touch(arr)
				}
			}
		}
	}
}

func (i *interpreter) releaseBig() {
	for _, b := range i.bigUsed {
		i.wk.free[len(b.cells)] = append(i.wk.free[len(b.cells)], b)
	}
	i.bigUsed = nil
}

func newInterpreter(prog *ssa.Program, ex *explorer, wk *workerCtx) *interpreter {
	i := &interpreter{
		prog:    prog,
		globals: make(map[*ssa.Global]*value),
		sizes:   &types.StdSizes{WordSize: 8, MaxAlign: 8},
		ex:      ex,
		mutexes: map[*value]*mutexObj{},
		wgs:     map[*value]*wgObj{},
		pools:   map[*value]*poolObj{},
		onces:   map[*value]*onceObj{},
		funcs:   wk.funcs,
		wk:      wk,
		subst:   map[string]value{},
		env:     &envState{},
	}
	if ex.run.cfg.Trace {
		i.mode = EnableTracing
	}
	i.sch = newScheduler(i)
	runtimePkg := prog.ImportedPackage("runtime")
	if runtimePkg == nil {
		panic("ssa.Program doesn't include runtime package")
	}
	i.runtimeErrorString = runtimePkg.Type("errorString").Object().Type()
	return i
}

// global returns the address of a package-level variable, allocating its zero value on
// first use (most of the ~150 loaded packages are never touched on a path).
func (i *interpreter) global(g *ssa.Global) *value {
	if r, ok := i.globals[g]; ok {
		return r
	}
	t := typeparams.MustDeref(g.Type())
	var cell value
	if at, ok := t.Underlying().(*types.Array); ok && at.Len() >= bigArrayLen {
		cell = array(i.bigAlloc(int(at.Len())))
	} else {
		cell = zero(t)
	}
	i.globals[g] = &cell
	return &cell
}

// runInits executes the root package initialiser; the synthetic init functions recurse into
// the imports, and callSSA skips the packages that are not on the init whitelist.
func (i *interpreter) runInits(root *ssa.Package) {
	i.inInit++
	defer func() { i.inInit-- }()
	if f := root.Func("init"); f != nil {
		call(i, nil, token.NoPos, f, nil)
	}
}

func skipInit(fn *ssa.Function) bool {
	if fn.Name() != "init" || fn.Synthetic == "" || fn.Pkg == nil {
		return false
	}
	p := fn.Pkg.Pkg.Path()
	return !(repoPkg(p) || initStd[p])
}

func lookupExternal(fn *ssa.Function) externalFn {
	name := fn.String()
	if e := externals[name]; e != nil {
		return e
	}
	if fn.Pkg != nil {
		p := fn.Pkg.Pkg.Path()
		// harness API: any package named rt under zz_verif
		if strings.HasSuffix(p, "/zz_verif/rt") {
			if e := rtExternals[fn.Name()]; e != nil {
				return e
			}
		}
		if e := prefixExternal(p, fn); e != nil {
			return e
		}
	}
	return nil
}

var enginePanicPrefixes = []string{
	"unexpected x type", "cannot convert", "illegal map type", "no code for function", "zero: unexpected",
	"slice: unexpected", "invalid binary op", "invalid unary op", "unsupported conversion", "unknown built-in",
	"cannot range over", "cannot widen", "cannot call", "get: no value", "oops", "unexpected instruction",
	"interp requires", "constValue", "untyped nil", "ssa.MakeMap", "len: illegal", "cap: illegal", "real: illegal",
	"imag: illegal", "complex: illegal", "eqnil", "array length is greater",
}

// classifyPanic separates engine problems from panics of the target program.
func classifyPanic(p interface{}) interface{} {
	switch x := p.(type) {
	case killSentinel, pathEnd, engineError, targetPanic:
		return p
	case *runtime.TypeAssertionError:
		return engineError{"internal: " + x.Error() + " @ " + callerSummary()}
	case runtime.Error:
		if os.Getenv("SYMGO_STACK") != "" {
			fmt.Fprintf(os.Stderr, "runtime error %v @ %s\n%s\n", x, callerSummary(), debug.Stack())
		}
		return p
	case string:
		for _, pre := range enginePanicPrefixes {
			if strings.HasPrefix(x, pre) {
				return engineError{"internal: " + x}
			}
		}
		return p
	}
	return p
}

func callerSummary() string {
	pcs := make([]uintptr, 24)
	n := runtime.Callers(3, pcs)
	fs := runtime.CallersFrames(pcs[:n])
	var out []string
	for {
		f, more := fs.Next()
		if strings.Contains(f.Function, "symgo/interp") && !strings.Contains(f.Function, "classifyPanic") && !strings.Contains(f.Function, "runFrame.func") {
			out = append(out, fmt.Sprintf("%s:%d", f.Function[strings.LastIndex(f.Function, ".")+1:], f.Line))
			if len(out) >= 4 {
				break
			}
		}
		if !more {
			break
		}
	}
	return strings.Join(out, "<")
}

// loopGuard bounds the number of solver-decided decisions per instruction and frame.
func (fr *frame) loopGuard(ex *explorer) {
	if fr.curInstr == nil {
		return
	}
	if fr.symIters == nil {
		fr.symIters = map[ssa.Instruction]int{}
	}
	fr.symIters[fr.curInstr]++
	if fr.symIters[fr.curInstr] > ex.run.cfg.LoopCap {
		ex.inconclusive(fmt.Sprintf("unwinding: more than %d solver-decided iterations at %s in %s", ex.run.cfg.LoopCap,
			fr.i.prog.Fset.Position(fr.curInstr.Pos()), fr.fn))
		panic(pathEnd{"unwind"})
	}
}

// concrete turns a possibly symbolic scalar into a concrete one, forking over its values.
func (i *interpreter) concrete(fr *frame, v value, kind string) value {
	s, ok := v.(*sym)
	if !ok {
		return v
	}
	if s.k == types.Bool {
		return i.ex.Branch(fr, s.t, kind)
	}
	return concreteOfKind(s.k, i.ex.Concretize(fr, s.t, kind))
}

func isSymStr(v value) bool { _, ok := v.(symstr); return ok }

func (i *interpreter) sliceOp(fr *frame, instr *ssa.Slice, x, lo, hi, max value) value {
	lo, hi, max = i.concreteOrNil(fr, lo), i.concreteOrNil(fr, hi), i.concreteOrNil(fr, max)
	switch x := x.(type) {
	case symstr:
		l, h := int64(0), int64(len(x))
		if lo != nil {
			l = asInt64(lo)
		}
		if hi != nil {
			h = asInt64(hi)
		}
		return mkstr([]value(x)[l:h])
	case absBytes:
		if lo == nil && hi == nil && max == nil {
			return x
		}
		panic(engineError{"slicing an abstract-length byte slice"})
	}
	return slice(x, lo, hi, max)
}

func (i *interpreter) concreteOrNil(fr *frame, v value) value {
	if v == nil {
		return nil
	}
	return i.concrete(fr, v, "slicebound")
}

// symIndexAddr returns the address of cells[idx] for symbolic idx: bounds are decided by
// the solver; scalar cell vectors up to 512 cells give a symptr, anything else forks.
func (i *interpreter) symIndexAddr(fr *frame, cells []value, idx *sym, tElt types.Type) value {
	c := i.ex.ctx
	_, signed, _, _ := kindInfo(idx.k)
	var t *smt.Term
	if signed {
		t = c.SExt(idx.t, 64)
	} else {
		t = c.ZExt(idx.t, 64)
	}
	fr.curInstr = nil
	inb := c.Cmp(smt.OUlt, t, c.BV(uint64(len(cells)), 64))
	if !i.ex.Branch(fr, inb, "bounds") {
		panic(fmt.Sprintf("runtime error: index out of range [symbolic] with length %d", len(cells)))
	}
	if len(cells) <= 512 {
		for j := range cells {
			forceT(&cells[j], tElt)
		}
	}
	if len(cells) <= 512 && scalarCells(cells) {
		return symptr{arr: cells, idx: t}
	}
	if _, isStruct := tElt.Underlying().(*types.Struct); isStruct && len(cells) <= 512 && len(cells) > i.ex.run.cfg.ConcMax && plainData(tElt, 0) {
		// more slots than concretising may fork over: the element stays symbolic (symagg.go)
		return symptr{arr: cells, idx: t, elt: tElt}
	}
	p := &cells[i.ex.Concretize(fr, t, "index")]
	forceT(p, tElt)
	return p
}

func (i *interpreter) makeSlice(fr *frame, instr *ssa.MakeSlice, ln, cp value) value {
	tElt := instr.Type().Underlying().(*types.Slice).Elem()
	if isSym(ln) || isSym(cp) {
		esz := uint64(i.sizes.Sizeof(tElt))
		i.ex.noteAlloc(fr, i.term(cp), esz)
		if _, ok := ln.(*sym); ok && i.ex.absAlloc && tElt.Underlying() == types.Typ[types.Uint8] {
			// harness asked for abstract-length allocation of byte slices
		}
		n := asInt64(i.concrete(fr, ln, "makelen"))
		cpv := int64(n)
		if cs, ok := cp.(*sym); !ok || cs != ln.(*sym) {
			cpv = asInt64(i.concrete(fr, cp, "makecap"))
		}
		ln, cp = int(n), int(cpv)
	} else {
		i.ex.noteAllocConcrete(uint64(asInt64(cp)) * uint64(i.sizes.Sizeof(tElt)))
	}
	n, c := asInt64(ln), asInt64(cp)
	if n < 0 {
		panic("runtime error: makeslice: len out of range")
	}
	if c < n {
		panic("runtime error: makeslice: cap out of range")
	}
	if c > 1<<28 {
		panic(engineError{fmt.Sprintf("make of %d elements: refusing to allocate in the engine", c)})
	}
	if c >= bigArrayLen {
		b := fr.i.bigAlloc(int(c))
		return b[:n]
	}
	sl := make([]value, c)
	if c >= 64 {
		return sl[:n] // nil cells = lazy zeros
	}
	z := zero(tElt)
	switch z.(type) {
	case structure, array:
		for j := range sl {
			sl[j] = zero(tElt)
		}
	default:
		for j := range sl {
			sl[j] = z
		}
	}
	return sl[:n]
}

// ---------------------------------------------------------------- ordered maps

type omap struct {
	kt   types.Type
	keys []value
	vals []value
}

func makeMap(kt types.Type, reserve int64) value { return &omap{kt: kt} }

func (m *omap) len() int {
	if m == nil {
		return 0
	}
	return len(m.keys)
}

// find returns the index of key (concrete comparison); symbolic keys fork on equality
// with each present key.
func (i *interpreter) mapFind(fr *frame, m *omap, key value) int {
	if m == nil {
		return -1
	}
	for j, k := range m.keys {
		if containsSym(k) || containsSym(key) {
			r := i.symEquals(m.kt, k, key)
			switch r := r.(type) {
			case bool:
				if r {
					return j
				}
			case *sym:
				if fr != nil {
					fr.curInstr = nil
				}
				if i.ex.Branch(fr, r.t, "mapkey") {
					return j
				}
			}
			continue
		}
		if equals(m.kt, k, key) {
			return j
		}
	}
	return -1
}

// guardCheck enforces the lock discipline registered with rt.Guard for a map: reads need the
// mutex held (read or write) by the executing goroutine, writes need it write-held.
func (i *interpreter) guardCheck(m *omap, write bool) {
	if m == nil || len(i.guards) == 0 {
		return
	}
	g, ok := i.guards[m]
	if !ok {
		return
	}
	cur := i.sch.cur
	what := "read"
	if write {
		what = "write"
	}
	if g.mu == nil {
		// lockset inference: accesses by the main goroutine (set-up, final read-back after
		// all others have finished) do not count
		if cur.id == 0 {
			return
		}
		held := map[*mutexObj]bool{}
		for _, mu := range i.mutexList {
			if mu.writer == cur || (!write && mu.readers[cur] > 0) {
				held[mu] = true
			}
		}
		ls := i.locksets[m]
		if ls == nil {
			ls = held
		} else {
			for mu := range ls {
				if !held[mu] {
					delete(ls, mu)
				}
			}
		}
		if i.locksets == nil {
			i.locksets = map[*omap]map[*mutexObj]bool{}
		}
		i.locksets[m] = ls
		if len(ls) == 0 {
			i.ex.fail("race", g.id+"-"+what+"-without-common-lock", fmt.Sprintf("map %s by goroutine %d (%s): no mutex is held at every access to the shared map", what, cur.id, cur.name), i.ex.modelOrNil())
		}
		return
	}
	mu := i.mutexOf(g.mu)
	okLock := mu.writer == cur || (!write && mu.readers[cur] > 0)
	if !okLock {
		i.ex.fail("race", g.id+"-"+what+"-without-lock", fmt.Sprintf("map %s by goroutine %d (%s) without the %s lock", what, cur.id, cur.name, map[bool]string{true: "write", false: "read/write"}[write]), i.ex.modelOrNil())
	}
}

// watch: see rt.Watch.
type watch struct {
	mu *value // nil: no lock makes a plain access legal
	id string
}

// watchCheck reports a plain (non-atomic) load or store of watched memory by a spawned
// goroutine that does not write-hold the watch's mutex: other goroutines access that memory
// with sync/atomic operations, so the plain access is a data race (and can lose an update).
func (i *interpreter) watchCheck(a *value, write bool) {
	w, ok := i.watches[a]
	if !ok {
		return
	}
	cur := i.sch.cur
	if cur.id == 0 {
		return
	}
	if w.mu != nil {
		m := i.mutexOf(w.mu)
		if m.writer == cur || (!write && m.readers[cur] > 0) {
			return
		}
	}
	what := "read"
	if write {
		what = "write"
	}
	i.ex.fail("race", w.id+"-plain-"+what, fmt.Sprintf("plain %s of memory that is otherwise accessed atomically, by goroutine %d (%s)", what, cur.id, cur.name), i.ex.modelOrNil())
}

type guard struct {
	mu *value
	id string
}

func (i *interpreter) lookup(fr *frame, instr *ssa.Lookup, x, idx value) value {
	m, ok := x.(*omap)
	if !ok {
		panic(fmt.Sprintf("unexpected x type in Lookup: %T", x))
	}
	i.guardCheck(m, false)
	var v value
	j := i.mapFind(fr, m, idx)
	found := j >= 0
	if found {
		v = copyVal(m.vals[j])
	} else {
		v = zero(instr.X.Type().Underlying().(*types.Map).Elem())
	}
	if instr.CommaOk {
		v = tuple{v, found}
	}
	return v
}

func (i *interpreter) mapInsert(fr *frame, m *omap, key, v value) {
	i.guardCheck(m, true)
	if j := i.mapFind(fr, m, key); j >= 0 {
		m.vals[j] = v
		return
	}
	m.keys = append(m.keys, key)
	m.vals = append(m.vals, v)
}

func (i *interpreter) mapDelete(fr *frame, m *omap, key value) {
	if m == nil {
		return
	}
	i.guardCheck(m, true)
	if j := i.mapFind(fr, m, key); j >= 0 {
		m.keys = append(m.keys[:j:j], m.keys[j+1:]...)
		m.vals = append(m.vals[:j:j], m.vals[j+1:]...)
	}
}

// copyVal copies aggregate values (structs/arrays are values in Go).
func copyVal(v value) value {
	switch x := v.(type) {
	case nil:
		return nil
	case structure:
		a := make(structure, len(x))
		for j := range x {
			a[j] = copyVal(x[j])
		}
		return a
	case array:
		a := make(array, len(x))
		for j := range x {
			a[j] = copyVal(x[j])
		}
		return a
	}
	return v
}

// omapIter iterates a snapshot of the map in insertion order; in schedule/choice exploring
// harnesses maps with 2..3 entries are iterated in every order (A11).
type omapIter struct {
	m     *omap
	order []value
	pos   int
	i     *interpreter
	fr    *frame
}

func (it *omapIter) next() tuple {
	for it.pos < len(it.order) {
		k := it.order[it.pos]
		it.pos++
		// entries deleted during iteration are skipped
		if j := it.i.mapFind(nil, it.m, k); j >= 0 {
			return tuple{true, k, copyVal(it.m.vals[j])}
		}
	}
	return tuple{false, nil, nil}
}

type symstrIter struct {
	s   symstr
	pos int
	i   *interpreter
	fr  *frame
}

func (it *symstrIter) next() tuple {
	if it.pos >= len(it.s) {
		return tuple{false, nil, nil}
	}
	c := it.i.ex.ctx
	b := it.s[it.pos]
	p := it.pos
	it.pos++
	if s, ok := b.(*sym); ok {
		// ASCII assumed and asserted (A: range over symbolic strings)
		if !it.i.ex.Branch(it.fr, c.Cmp(smt.OUlt, s.t, c.BV(0x80, 8)), "ascii") {
			panic(engineError{"range over a symbolic string with a non-ASCII byte"})
		}
		return tuple{true, p, mkval(c.ZExt(s.t, 32), types.Int32)}
	}
	if b.(byte) >= utf8.RuneSelf {
		panic(engineError{"range over a partly symbolic string with a non-ASCII byte"})
	}
	return tuple{true, p, int32(b.(byte))}
}

func (i *interpreter) rangeIter(fr *frame, x value, t types.Type) iter {
	switch x := x.(type) {
	case *omap:
		it := &omapIter{m: x, i: i, fr: fr}
		if x != nil {
			it.order = append(it.order, x.keys...)
			if n := len(it.order); n >= 2 && n <= 3 && i.ex.run.cfg.Params["maporder"] != 0 && i.inInit == 0 {
				perms := permutations(n)
				p := perms[i.ex.Choice(len(perms), "maporder")]
				o := make([]value, n)
				for a, b := range p {
					o[a] = it.order[b]
				}
				it.order = o
			}
		}
		return it
	case string:
		return &stringIter{Reader: strings.NewReader(x)}
	case symstr:
		return &symstrIter{s: x, i: i, fr: fr}
	}
	panic(fmt.Sprintf("cannot range over %T", x))
}

func permutations(n int) [][]int {
	var res [][]int
	var rec func(cur []int, used int)
	rec = func(cur []int, used int) {
		if len(cur) == n {
			res = append(res, append([]int(nil), cur...))
			return
		}
		for j := 0; j < n; j++ {
			if used&(1<<uint(j)) == 0 {
				rec(append(cur, j), used|1<<uint(j))
			}
		}
	}
	rec(nil, 0)
	return res
}

// ---------------------------------------------------------------- conversions with strings

func (i *interpreter) conv(tdst, tsrc types.Type, x value) value {
	utSrc, utDst := tsrc.Underlying(), tdst.Underlying()
	switch s := utSrc.(type) {
	case *types.Slice:
		if b, ok := s.Elem().Underlying().(*types.Basic); ok && b.Kind() == types.Byte {
			if _, ok := utDst.(*types.Basic); ok {
				if ab, ok := x.(absBytes); ok {
					_ = ab
					panic(engineError{"string() of an abstract-length byte slice"})
				}
				return mkstr(x.([]value))
			}
		}
	case *types.Basic:
		if ss, ok := x.(symstr); ok {
			switch d := utDst.(type) {
			case *types.Slice:
				if d.Elem().Underlying().(*types.Basic).Kind() == types.Byte {
					return append([]value(nil), ss...)
				}
				panic(engineError{"[]rune of a symbolic string"})
			case *types.Basic:
				if d.Kind() == types.String {
					return ss
				}
			}
		}
	}
	return conv(tdst, tsrc, x)
}

func (i *interpreter) unopFr(fr *frame, instr *ssa.UnOp, x value) value {
	switch instr.Op {
	case token.ARROW:
		c, _ := x.(*chanObj)
		v, ok := i.sch.chanRecv(c, zero(instr.X.Type().Underlying().(*types.Chan).Elem()))
		if !ok {
			v = zero(instr.X.Type().Underlying().(*types.Chan).Elem())
		}
		if instr.CommaOk {
			return tuple{v, ok}
		}
		return v
	case token.MUL:
		if sp, ok := x.(symptr); ok {
			return i.symLoad(sp)
		}
	default:
		if s, ok := x.(*sym); ok {
			return i.symUnop(instr.Op, s)
		}
	}
	return unop(instr, x)
}
