package interp

import "go/types"

type tpShim struct{}

var typeparams tpShim

func (tpShim) MustDeref(t types.Type) types.Type {
	if p, ok := t.Underlying().(*types.Pointer); ok {
		return p.Elem()
	}
	panic("MustDeref: not a pointer: " + t.String())
}
func (tpShim) CoreType(t types.Type) types.Type { return t.Underlying() }
func (tpShim) Deref(t types.Type) types.Type {
	if p, ok := t.Underlying().(*types.Pointer); ok {
		return p.Elem()
	}
	return t
}
