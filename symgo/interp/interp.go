// Copyright 2013 The Go Authors. All rights reserved.
// Use of this source code is governed by a BSD-style
// license that can be found in the LICENSE file.

// Package ssa/interp defines an interpreter for the SSA
// representation of Go programs.
//
// This interpreter is provided as an adjunct for testing the SSA
// construction algorithm.  Its purpose is to provide a minimal
// metacircular implementation of the dynamic semantics of each SSA
// instruction.  It is not, and will never be, a production-quality Go
// interpreter.
//
// The following is a partial list of Go features that are currently
// unsupported or incomplete in the interpreter.
//
// * Unsafe operations, including all uses of unsafe.Pointer, are
// impossible to support given the "boxed" value representation we
// have chosen.
//
// * The reflect package is only partially implemented.
//
// * The "testing" package is no longer supported because it
// depends on low-level details that change too often.
//
// * "sync/atomic" operations are not atomic due to the "boxed" value
// representation: it is not possible to read, modify and write an
// interface value atomically. As a consequence, Mutexes are currently
// broken.
//
// * recover is only partially implemented.  Also, the interpreter
// makes no attempt to distinguish target panics from interpreter
// crashes.
//
// * the sizes of the int, uint and uintptr types in the target
// program are assumed to be the same as those of the interpreter
// itself.
//
// * all values occupy space, even those of types defined by the spec
// to have zero size, e.g. struct{}.  This can cause asymptotic
// performance degradation.
//
// * os.Exit is implemented using panic, causing deferred functions to
// run.
package interp // import "golang.org/x/tools/go/ssa/interp"

import (
	"fmt"
	"go/token"
	"go/types"
	"log"
	"os"
	"runtime"
	"slices"
	_ "unsafe"

	"golang.org/x/tools/go/ssa"
)

type continuation int

const (
	kNext continuation = iota
	kReturn
	kJump
)

// Mode is a bitmask of options affecting the interpreter.
type Mode uint

const (
	DisableRecover Mode = 1 << iota // Disable recover() in target programs; show interpreter crash instead.
	EnableTracing                   // Print a trace of all instructions as they are interpreted.
)

type methodSet map[string]*ssa.Function

// State shared between all interpreted goroutines.
type interpreter struct {
	extCaller          *frame                 // frame that invoked the external being executed (scheduling-point filter)
	osArgs             []value                // the value of os.Args
	prog               *ssa.Program           // the SSA program
	globals            map[*ssa.Global]*value // addresses of global variables (immutable)
	mode               Mode                   // interpreter options
	reflectPackage     *ssa.Package           // the fake reflect package
	errorMethods       methodSet              // the method set of reflect.error, which implements the error interface.
	rtypeMethods       methodSet              // the method set of rtype, which implements the reflect.Type interface.
	runtimeErrorString types.Type             // the runtime.errorString type
	sizes              types.Sizes            // the effective type-sizing function
	goroutines         int32                  // atomically updated

	// symbolic execution state (one interpreter per path)
	ex        *explorer
	sch       *scheduler
	mutexes   map[*value]*mutexObj
	mutexList []*mutexObj
	wgs       map[*value]*wgObj
	pools     map[*value]*poolObj
	onces     map[*value]*onceObj
	funcs     map[*ssa.Function]int
	subst     map[string]value // function substitution table (harness-registered)
	env       *envState
	inInit    int
	wk        *workerCtx
	bigUsed   []*bigBuf
	guards    map[*omap]guard
	locksets  map[*omap]map[*mutexObj]bool
	watches   map[*value]watch // memory that spawned goroutines may only access atomically or under a write lock
	deferGo   bool // template mode: goroutines started by initialisers are started after the snapshot
	pendingGo []pendingGo
}

type deferred struct {
	fn    value
	args  []value
	instr *ssa.Defer
	tail  *deferred
}

type frame struct {
	i                *interpreter
	caller           *frame
	fn               *ssa.Function
	block, prevBlock *ssa.BasicBlock
	env              map[ssa.Value]value // dynamic values of SSA variables
	locals           []value
	defers           *deferred
	result           value
	panicking        bool
	panic            interface{}
	phitemps         []value // temporaries for parallel phi assignment
	symIters         map[ssa.Instruction]int
	curInstr         ssa.Instruction
}

func (fr *frame) get(key ssa.Value) value {
	switch key := key.(type) {
	case nil:
		// Hack; simplifies handling of optional attributes
		// such as ssa.Slice.{Low,High}.
		return nil
	case *ssa.Function, *ssa.Builtin:
		return key
	case *ssa.Const:
		return constValue(key)
	case *ssa.Global:
		return fr.i.global(key)
	}
	if r, ok := fr.env[key]; ok {
		return r
	}
	panic(fmt.Sprintf("get: no value for %T: %v", key, key.Name()))
}

// runDefer runs a deferred call d.
// It always returns normally, but may set or clear fr.panic.
func (fr *frame) runDefer(d *deferred) {
	if fr.i.mode&EnableTracing != 0 {
		fmt.Fprintf(os.Stderr, "%s: invoking deferred function call\n",
			fr.i.prog.Fset.Position(d.instr.Pos()))
	}
	var ok bool
	defer func() {
		if !ok {
			// Deferred call created a new state of panic.
			fr.panicking = true
			fr.panic = classifyPanic(recover())
			switch fr.panic.(type) {
			case killSentinel, pathEnd, engineError:
				panic(fr.panic)
			}
		}
	}()
	call(fr.i, fr, d.instr.Pos(), d.fn, d.args)
	ok = true
}

// runDefers executes fr's deferred function calls in LIFO order.
//
// On entry, fr.panicking indicates a state of panic; if
// true, fr.panic contains the panic value.
//
// On completion, if a deferred call started a panic, or if no
// deferred call recovered from a previous state of panic, then
// runDefers itself panics after the last deferred call has run.
//
// If there was no initial state of panic, or it was recovered from,
// runDefers returns normally.
func (fr *frame) runDefers() {
	for d := fr.defers; d != nil; d = d.tail {
		fr.runDefer(d)
	}
	fr.defers = nil
	if fr.panicking {
		panic(fr.panic) // new panic, or still panicking
	}
}

// lookupMethod returns the method set for type typ, which may be one
// of the interpreter's fake types.
func lookupMethod(i *interpreter, typ types.Type, meth *types.Func) *ssa.Function {
	return i.prog.LookupMethod(typ, meth.Pkg(), meth.Name())
}

// visitInstr interprets a single ssa.Instruction within the activation
// record frame.  It returns a continuation value indicating where to
// read the next instruction from.
func visitInstr(fr *frame, instr ssa.Instruction) continuation {
	switch instr := instr.(type) {
	case *ssa.DebugRef:
		// no-op

	case *ssa.UnOp:
		if len(fr.i.watches) > 0 && instr.Op == token.MUL {
			if a, ok := fr.get(instr.X).(*value); ok {
				fr.i.watchCheck(a, false)
			}
		}
		fr.env[instr] = fr.i.unopFr(fr, instr, fr.get(instr.X))

	case *ssa.BinOp:
		x, y := fr.get(instr.X), fr.get(instr.Y)
		if isSym(x) || isSym(y) || isSymStr(x) || isSymStr(y) {
			fr.env[instr] = fr.i.symBinop(fr, instr.Op, instr.X.Type(), instr.Y.Type(), x, y)
		} else if (instr.Op == token.EQL || instr.Op == token.NEQ) && (containsSym(x) || containsSym(y)) {
			fr.env[instr] = fr.i.symBinop(fr, instr.Op, instr.X.Type(), instr.Y.Type(), x, y)
		} else {
			fr.env[instr] = binop(instr.Op, instr.X.Type(), x, y)
		}

	case *ssa.Call:
		fn, args := prepareCall(fr, &instr.Call)
		fr.env[instr] = call(fr.i, fr, instr.Pos(), fn, args)

	case *ssa.ChangeInterface:
		fr.env[instr] = fr.get(instr.X)

	case *ssa.ChangeType:
		fr.env[instr] = fr.get(instr.X) // (can't fail)

	case *ssa.Convert:
		if x, ok := fr.get(instr.X).(*sym); ok {
			fr.env[instr] = fr.i.symConv(fr, instr.Type(), instr.X.Type(), x)
		} else {
			fr.env[instr] = fr.i.conv(instr.Type(), instr.X.Type(), fr.get(instr.X))
		}

	case *ssa.SliceToArrayPointer:
		fr.env[instr] = sliceToArrayPointer(instr.Type(), instr.X.Type(), fr.get(instr.X))

	case *ssa.MakeInterface:
		fr.env[instr] = iface{t: instr.X.Type(), v: fr.get(instr.X)}

	case *ssa.Extract:
		fr.env[instr] = fr.get(instr.Tuple).(tuple)[instr.Index]

	case *ssa.Slice:
		fr.env[instr] = fr.i.sliceOp(fr, instr, fr.get(instr.X), fr.get(instr.Low), fr.get(instr.High), fr.get(instr.Max))

	case *ssa.Return:
		switch len(instr.Results) {
		case 0:
		case 1:
			fr.result = fr.get(instr.Results[0])
		default:
			var res []value
			for _, r := range instr.Results {
				res = append(res, fr.get(r))
			}
			fr.result = tuple(res)
		}
		fr.block = nil
		return kReturn

	case *ssa.RunDefers:
		fr.runDefers()

	case *ssa.Panic:
		panic(targetPanic{fr.get(instr.X)})

	case *ssa.Send:
		c, _ := fr.get(instr.Chan).(*chanObj)
		fr.i.sch.chanSend(c, fr.get(instr.X))

	case *ssa.Store:
		switch a := fr.get(instr.Addr).(type) {
		case *value:
			if len(fr.i.watches) > 0 {
				fr.i.watchCheck(a, true)
			}
			store(typeparams.MustDeref(instr.Addr.Type()), a, fr.get(instr.Val))
		case symptr:
			fr.i.symStore(a, fr.get(instr.Val))
		default:
			panic(engineError{fmt.Sprintf("store through %T", a)})
		}

	case *ssa.If:
		succ := 1
		switch c := fr.get(instr.Cond).(type) {
		case bool:
			if c {
				succ = 0
			}
		case *sym:
			fr.curInstr = instr
			if fr.i.ex.Branch(fr, c.t, "br") {
				succ = 0
			}
		default:
			panic(engineError{fmt.Sprintf("if on %T", c)})
		}
		fr.prevBlock, fr.block = fr.block, fr.block.Succs[succ]
		return kJump

	case *ssa.Jump:
		fr.prevBlock, fr.block = fr.block, fr.block.Succs[0]
		return kJump

	case *ssa.Defer:
		fn, args := prepareCall(fr, &instr.Call)
		defers := &fr.defers
		if into := fr.get(instr.DeferStack); into != nil {
			defers = into.(**deferred)
		}
		*defers = &deferred{
			fn:    fn,
			args:  args,
			instr: instr,
			tail:  *defers,
		}

	case *ssa.Go:
		fn, args := prepareCall(fr, &instr.Call)
		i := fr.i
		if i.deferGo {
			i.pendingGo = append(i.pendingGo, pendingGo{name: fnName(fn), fn: fn, args: args})
		} else {
			i.sch.spawn(fnName(fn), func() { call(i, nil, instr.Pos(), fn, args) })
		}

	case *ssa.MakeChan:
		fr.env[instr] = &chanObj{cap: int(asInt64(fr.i.concrete(fr, fr.get(instr.Size), "chansize")))}

	case *ssa.Alloc:
		var addr *value
		if instr.Heap {
			// new
			addr = new(value)
			fr.env[instr] = addr
		} else {
			// local
			addr = fr.env[instr].(*value)
		}
		if at, ok := typeparams.MustDeref(instr.Type()).Underlying().(*types.Array); ok && at.Len() >= bigArrayLen {
			*addr = array(fr.i.bigAlloc(int(at.Len())))
		} else {
			*addr = zero(typeparams.MustDeref(instr.Type()))
		}

	case *ssa.MakeSlice:
		fr.env[instr] = fr.i.makeSlice(fr, instr, fr.get(instr.Len), fr.get(instr.Cap))

	case *ssa.MakeMap:
		var reserve int64
		if instr.Reserve != nil {
			reserve = asInt64(fr.i.concrete(fr, fr.get(instr.Reserve), "mapreserve"))
		}
		if !fitsInt(reserve, fr.i.sizes) {
			panic(fmt.Sprintf("ssa.MakeMap.Reserve value %d does not fit in int", reserve))
		}
		fr.env[instr] = makeMap(instr.Type().Underlying().(*types.Map).Key(), reserve)

	case *ssa.Range:
		fr.env[instr] = fr.i.rangeIter(fr, fr.get(instr.X), instr.X.Type())

	case *ssa.Next:
		fr.env[instr] = fr.get(instr.Iter).(iter).next()

	case *ssa.FieldAddr:
		if sp, ok := fr.get(instr.X).(symptr); ok && sp.elt != nil {
			ft := sp.elt.Underlying().(*types.Struct).Field(instr.Field).Type()
			fr.env[instr] = symptr{arr: sp.arr, idx: sp.idx, elt: ft, path: append(append([]int(nil), sp.path...), instr.Field)}
			break
		}
		p, ok := fr.get(instr.X).(*value)
		if !ok {
			panic(engineError{fmt.Sprintf("FieldAddr on %T", fr.get(instr.X))})
		}
		fr.env[instr] = &(*p).(structure)[instr.Field]

	case *ssa.Field:
		fr.env[instr] = fr.get(instr.X).(structure)[instr.Field]

	case *ssa.IndexAddr:
		x := fr.get(instr.X)
		idx := fr.get(instr.Index)
		var cells []value
		var tElt types.Type
		switch x := x.(type) {
		case []value:
			cells = x
			tElt = instr.X.Type().Underlying().(*types.Slice).Elem()
		case *value: // *array
			tArr := typeparams.MustDeref(instr.X.Type())
			if *x == nil {
				*x = zero(tArr)
			}
			cells = (*x).(array)
			tElt = tArr.Underlying().(*types.Array).Elem()
		case absBytes:
			panic(engineError{"element access on an abstract-length byte slice"})
		default:
			panic(fmt.Sprintf("unexpected x type in IndexAddr: %T", x))
		}
		if cap(cells) >= 64 {
			fr.i.touch(cells)
		}
		if si, ok := idx.(*sym); ok {
			fr.env[instr] = fr.i.symIndexAddr(fr, cells, si, tElt)
		} else {
			p := &cells[asInt64(idx)]
			forceT(p, tElt)
			fr.env[instr] = p
		}

	case *ssa.Index:
		x := fr.get(instr.X)
		idx := fr.get(instr.Index)

		switch x := x.(type) {
		case array:
			tElt := instr.X.Type().Underlying().(*types.Array).Elem()
			if si, ok := idx.(*sym); ok {
				switch p := fr.i.symIndexAddr(fr, x, si, tElt).(type) {
				case symptr:
					fr.env[instr] = fr.i.symLoad(p)
				case *value:
					fr.env[instr] = *p
				}
			} else {
				fr.env[instr] = forceT(&x[asInt64(idx)], tElt)
			}
		case string:
			if si, ok := idx.(*sym); ok {
				switch p := fr.i.symIndexAddr(fr, strCells(x), si, types.Typ[types.Uint8]).(type) {
				case symptr:
					fr.env[instr] = fr.i.symLoad(p)
				case *value:
					fr.env[instr] = *p
				}
			} else {
				fr.env[instr] = x[asInt64(idx)]
			}
		case symstr:
			if si, ok := idx.(*sym); ok {
				switch p := fr.i.symIndexAddr(fr, []value(x), si, types.Typ[types.Uint8]).(type) {
				case symptr:
					fr.env[instr] = fr.i.symLoad(p)
				case *value:
					fr.env[instr] = *p
				}
			} else {
				fr.env[instr] = x[asInt64(idx)]
			}
		default:
			panic(fmt.Sprintf("unexpected x type in Index: %T", x))
		}

	case *ssa.Lookup:
		fr.env[instr] = fr.i.lookup(fr, instr, fr.get(instr.X), fr.get(instr.Index))

	case *ssa.MapUpdate:
		m := fr.get(instr.Map).(*omap)
		if m == nil {
			panic("assignment to entry in nil map")
		}
		fr.i.mapInsert(fr, m, fr.get(instr.Key), fr.get(instr.Value))

	case *ssa.TypeAssert:
		fr.env[instr] = typeAssert(fr.i, instr, fr.get(instr.X).(iface))

	case *ssa.MakeClosure:
		var bindings []value
		for _, binding := range instr.Bindings {
			bindings = append(bindings, fr.get(binding))
		}
		fr.env[instr] = &closure{instr.Fn.(*ssa.Function), bindings}

	case *ssa.Phi:
		log.Fatal("unreachable") // phis are processed at block entry

	case *ssa.Select:
		var cases []selCase
		for _, state := range instr.States {
			sc := selCase{send: state.Dir != types.RecvOnly, zeroV: zero(state.Chan.Type().Underlying().(*types.Chan).Elem())}
			if c, _ := fr.get(state.Chan).(*chanObj); c != nil {
				sc.c = c
			}
			if state.Send != nil {
				sc.val = fr.get(state.Send)
			}
			cases = append(cases, sc)
		}
		chosen, recv, recvOk := fr.i.sch.chanSelect(cases, !instr.Blocking)
		r := tuple{chosen, recvOk}
		for i, st := range instr.States {
			if st.Dir == types.RecvOnly {
				var v value
				if i == chosen && recvOk {
					v = recv
				} else {
					v = zero(st.Chan.Type().Underlying().(*types.Chan).Elem())
				}
				r = append(r, v)
			}
		}
		fr.env[instr] = r

	default:
		panic(fmt.Sprintf("unexpected instruction: %T", instr))
	}

	// if val, ok := instr.(ssa.Value); ok {
	// 	fmt.Println(toString(fr.env[val])) // debugging
	// }

	return kNext
}

// prepareCall determines the function value and argument values for a
// function call in a Call, Go or Defer instruction, performing
// interface method lookup if needed.
func prepareCall(fr *frame, call *ssa.CallCommon) (fn value, args []value) {
	v := fr.get(call.Value)
	if call.Method == nil {
		// Function call.
		fn = v
	} else {
		// Interface method invocation.
		recv := v.(iface)
		if recv.t == nil {
			panic("method invoked on nil interface")
		}
		if f := lookupMethod(fr.i, recv.t, call.Method); f == nil {
			// Unreachable in well-typed programs.
			panic(fmt.Sprintf("method set for dynamic type %v does not contain %s", recv.t, call.Method))
		} else {
			fn = f
		}
		args = append(args, recv.v)
	}
	for _, arg := range call.Args {
		args = append(args, fr.get(arg))
	}
	return
}

// call interprets a call to a function (function, builtin or closure)
// fn with arguments args, returning its result.
// callpos is the position of the callsite.
func call(i *interpreter, caller *frame, callpos token.Pos, fn value, args []value) value {
	switch fn := fn.(type) {
	case *ssa.Function:
		if fn == nil {
			panic("call of nil function") // nil of func type
		}
		return callSSA(i, caller, callpos, fn, args, nil)
	case *closure:
		return callSSA(i, caller, callpos, fn.Fn, args, fn.Env)
	case *ssa.Builtin:
		return callBuiltin(caller, callpos, fn, args)
	}
	panic(fmt.Sprintf("cannot call %T", fn))
}

func loc(fset *token.FileSet, pos token.Pos) string {
	if pos == token.NoPos {
		return ""
	}
	return " at " + fset.Position(pos).String()
}

// callSSA interprets a call to function fn with arguments args,
// and lexical environment env, returning its result.
// callpos is the position of the callsite.
func callSSA(i *interpreter, caller *frame, callpos token.Pos, fn *ssa.Function, args []value, env []value) value {
	if i.mode&EnableTracing != 0 {
		fset := fn.Prog.Fset
		// TODO(adonovan): fix: loc() lies for external functions.
		fmt.Fprintf(os.Stderr, "Entering %s%s.\n", fn, loc(fset, fn.Pos()))
		suffix := ""
		if caller != nil {
			suffix = ", resuming " + caller.fn.String() + loc(fset, callpos)
		}
		defer fmt.Fprintf(os.Stderr, "Leaving %s%s.\n", fn, suffix)
	}
	fr := &frame{
		i:      i,
		caller: caller, // for panic/recover
		fn:     fn,
	}
	i.funcs[fn]++
	if skipInit(fn) {
		return nil
	}
	if sub := i.subst[fn.String()]; sub != nil {
		return call(i, caller, callpos, sub, args)
	}
	if fn.Parent() == nil {
		if ext := lookupExternal(fn); ext != nil {
			if i.mode&EnableTracing != 0 {
				fmt.Fprintln(os.Stderr, "\t(external)")
			}
			i.touchArgs(args)
			i.extCaller = caller
			return ext(fr, args)
		}
		if fn.Blocks == nil {
			if ext := asmExternal(fn); ext != nil {
				i.touchArgs(args)
				return ext(fr, args)
			}
			panic(engineError{"no code for function: " + fn.String()})
		}
		if fn.Pkg != nil && !interpretedPkg(fn.Pkg.Pkg.Path()) {
			panic(engineError{"call into non-interpreted package without a model: " + fn.String()})
		}
	}

	// generic function body?
	if fn.TypeParams().Len() > 0 && len(fn.TypeArgs()) == 0 {
		panic("interp requires ssa.BuilderMode to include InstantiateGenerics to execute generics")
	}

	fr.env = make(map[ssa.Value]value)
	fr.block = fn.Blocks[0]
	fr.locals = make([]value, len(fn.Locals))
	for i, l := range fn.Locals {
		fr.locals[i] = zero(typeparams.MustDeref(l.Type()))
		fr.env[l] = &fr.locals[i]
	}
	for i, p := range fn.Params {
		fr.env[p] = args[i]
	}
	for i, fv := range fn.FreeVars {
		fr.env[fv] = env[i]
	}
	for fr.block != nil {
		runFrame(fr)
	}
	// Destroy the locals to avoid accidental use after return.
	for i := range fn.Locals {
		fr.locals[i] = bad{}
	}
	return fr.result
}

// runFrame executes SSA instructions starting at fr.block and
// continuing until a return, a panic, or a recovered panic.
//
// After a panic, runFrame panics.
//
// After a normal return, fr.result contains the result of the call
// and fr.block is nil.
//
// A recovered panic in a function without named return parameters
// (NRPs) becomes a normal return of the zero value of the function's
// result type.
//
// After a recovered panic in a function with NRPs, fr.result is
// undefined and fr.block contains the block at which to resume
// control.
func runFrame(fr *frame) {
	defer func() {
		if fr.block == nil {
			return // normal return
		}
		if fr.i.mode&DisableRecover != 0 {
			return // let interpreter crash
		}
		fr.panicking = true
		fr.panic = classifyPanic(recover())
		switch fr.panic.(type) {
		case killSentinel, pathEnd, engineError:
			// engine control flow: target defers do not run, target recover() never sees it
			panic(fr.panic)
		}
		fr.i.ex.tracef("panic in %s: %s", fr.fn, panicString(fr.panic))
		if fr.i.mode&EnableTracing != 0 {
			fmt.Fprintf(os.Stderr, "Panicking: %T %v.\n", fr.panic, fr.panic)
		}
		fr.runDefers()
		fr.block = fr.fn.Recover
	}()

	for {
		if fr.i.mode&EnableTracing != 0 {
			fmt.Fprintf(os.Stderr, ".%s:\n", fr.block)
		}

		nonPhis := executePhis(fr)
		for _, instr := range nonPhis {
			if fr.i.mode&EnableTracing != 0 {
				if v, ok := instr.(ssa.Value); ok {
					fmt.Fprintln(os.Stderr, "\t", v.Name(), "=", instr)
				} else {
					fmt.Fprintln(os.Stderr, "\t", instr)
				}
			}
			ex := fr.i.ex
			ex.steps++
			if ex.steps > ex.run.cfg.StepBudget && !(ex.template && ex.steps <= 100*ex.run.cfg.StepBudget) {
				// (the concrete set-up phase, run once per worker, gets a hundred times the budget)
				ex.inconclusive("step budget exhausted on a path (divergence?)")
				panic(pathEnd{"step-budget"})
			}
			if visitInstr(fr, instr) == kReturn {
				return
			}
			// Inv: kNext (continue) or kJump (last instr)
		}
	}
}

// executePhis executes the phi-nodes at the start of the current
// block and returns the non-phi instructions.
func executePhis(fr *frame) []ssa.Instruction {
	firstNonPhi := -1
	for i, instr := range fr.block.Instrs {
		if _, ok := instr.(*ssa.Phi); !ok {
			firstNonPhi = i
			break
		}
	}
	// Inv: 0 <= firstNonPhi; every block contains a non-phi.

	nonPhis := fr.block.Instrs[firstNonPhi:]
	if firstNonPhi > 0 {
		phis := fr.block.Instrs[:firstNonPhi]
		// Execute parallel assignment of phis.
		//
		// See "the swap problem" in Briggs et al's "Practical Improvements
		// to the Construction and Destruction of SSA Form" for discussion.
		predIndex := slices.Index(fr.block.Preds, fr.prevBlock)
		fr.phitemps = fr.phitemps[:0]
		for _, phi := range phis {
			phi := phi.(*ssa.Phi)
			if fr.i.mode&EnableTracing != 0 {
				fmt.Fprintln(os.Stderr, "\t", phi.Name(), "=", phi)
			}
			fr.phitemps = append(fr.phitemps, fr.get(phi.Edges[predIndex]))
		}
		for i, phi := range phis {
			fr.env[phi.(*ssa.Phi)] = fr.phitemps[i]
		}
	}
	return nonPhis
}

// doRecover implements the recover() built-in.
func doRecover(caller *frame) value {
	// recover() must be exactly one level beneath the deferred
	// function (two levels beneath the panicking function) to
	// have any effect.  Thus we ignore both "defer recover()" and
	// "defer f() -> g() -> recover()".
	if caller.i.mode&DisableRecover == 0 &&
		caller != nil && !caller.panicking &&
		caller.caller != nil && caller.caller.panicking {
		caller.caller.panicking = false
		p := caller.caller.panic
		caller.caller.panic = nil

		// TODO(adonovan): support runtime.Goexit.
		switch p := p.(type) {
		case targetPanic:
			// The target program explicitly called panic() -- or the engine raised a Go run-time
			// panic on its behalf with a bare message (unlock of an unlocked mutex, send on a closed
			// channel): recover() must yield an interface value either way.
			if msg, ok := p.v.(string); ok {
				return iface{caller.i.runtimeErrorString, msg}
			}
			return p.v
		case runtime.Error:
			// The interpreter encountered a runtime error.
			return iface{caller.i.runtimeErrorString, p.Error()}
		case string:
			// The interpreter explicitly called panic().
			return iface{caller.i.runtimeErrorString, p}
		case error:
			return iface{caller.i.runtimeErrorString, p.Error()}
		default:
			panic(engineError{fmt.Sprintf("unexpected panic type %T in target call to recover()", p)})
		}
	}
	return iface{}
}


func fnName(fn value) string {
	switch f := fn.(type) {
	case *ssa.Function:
		return f.String()
	case *closure:
		return f.Fn.String()
	}
	return fmt.Sprint(fn)
}
