package interp

// Symbolic index into a vector of aggregates (structs) -- e.g. a direct-mapped table indexed
// by a hash of symbolic input. Concretising such an index forks once per feasible slot; here
// the element chosen stays symbolic instead:
//
//   - a scalar leaf of the element is read as an ite chain over the slots and written as a
//     per-slot ite (as for scalar vectors);
//   - a non-scalar leaf (interface, pointer, slice, ...) written at a symbolic index leaves a
//     guarded value in every slot: gval{store, j, old} stands for "store.val if store.idx == j,
//     else old". Reading such a leaf at another symbolic index groups the slots by what they
//     hold (same store, same older content); one group -- the usual case: every slot was zero
//     and then went through the same symbolic stores -- gives "store.val if idx == store.idx,
//     else older content", decided by a branch on the alias condition: two paths instead of
//     one per slot. A gval met by an ordinary load is resolved the same way (branch on
//     store.idx == j) and the slot keeps the resolved value on that path.
//
// A gval that reaches an operation which does not know it ends the path as an engine error
// (inconclusive), never as a wrong answer.

import (
	"fmt"
	"go/types"

	"verif/symgo/smt"
)

// aggStore is one store of a non-scalar leaf through a symbolic index.
type aggStore struct {
	i   *interpreter
	idx *smt.Term // 64-bit
	val value
}

// gval is the content of slot j's leaf after st: st.val if st.idx == j, else old.
type gval struct {
	st  *aggStore
	j   int
	old value
}

// resolveG decides a guarded cell by a branch on its alias condition.
func resolveG(v value) value {
	for {
		g, ok := v.(gval)
		if !ok {
			return v
		}
		c := g.st.i.ex.ctx
		if g.st.i.ex.Branch(nil, c.Cmp(smt.OEq, g.st.idx, c.BV(uint64(g.j), 64)), "alias") {
			v = g.st.val
		} else {
			v = g.old
		}
	}
}

// aggLeafAddr walks path into the element held by cell.
func aggLeafAddr(cell *value, path []int) *value {
	p := cell
	for _, f := range path {
		p = &(*p).(structure)[f]
	}
	return p
}

func isScalarType(t types.Type) bool {
	b, ok := t.Underlying().(*types.Basic)
	return ok && b.Info()&(types.IsBoolean|types.IsInteger|types.IsFloat) != 0
}

// symLoadAgg reads (the part at p.path of) arr[idx], of type p.elt.
func (i *interpreter) symLoadAgg(p symptr) value {
	switch t := p.elt.Underlying().(type) {
	case *types.Struct:
		out := make(structure, t.NumFields())
		for f := range out {
			out[f] = i.symLoadAgg(symptr{arr: p.arr, idx: p.idx, elt: t.Field(f).Type(), path: append(append([]int(nil), p.path...), f)})
		}
		return out
	case *types.Array:
		panic(engineError{"symbolic index: array inside the element"})
	}
	if isScalarType(p.elt) {
		leaves := make([]value, len(p.arr))
		for j := range p.arr {
			l := aggLeafAddr(&p.arr[j], p.path)
			forceT(l, p.elt)
			leaves[j] = *l
		}
		return i.symLoad(symptr{arr: leaves, idx: p.idx})
	}
	// non-scalar leaf: group the slots by content
	type class struct {
		rep     value
		members []int
	}
	var classes []*class
	for j := range p.arr {
		l := aggLeafAddr(&p.arr[j], p.path)
		forceT(l, p.elt)
		found := false
		for _, cl := range classes {
			if sameLeaf(cl.rep, *l) {
				cl.members = append(cl.members, j)
				found = true
				break
			}
		}
		if !found {
			if len(classes) >= 16 {
				panic(engineError{"symbolic index: more than 16 distinct non-scalar slot contents"})
			}
			classes = append(classes, &class{rep: *l, members: []int{j}})
		}
	}
	// the largest class is decided last (by elimination)
	big := 0
	for k, cl := range classes {
		if len(cl.members) > len(classes[big].members) {
			big = k
		}
	}
	classes[big], classes[len(classes)-1] = classes[len(classes)-1], classes[big]
	c := i.ex.ctx
	chosen := classes[len(classes)-1]
	for _, cl := range classes[:len(classes)-1] {
		in := c.Bool(false)
		for _, j := range cl.members {
			in = c.Or(in, c.Cmp(smt.OEq, p.idx, c.BV(uint64(j), 64)))
		}
		if i.ex.Branch(nil, in, "slotclass") {
			chosen = cl
			break
		}
	}
	// within a class every slot holds the same stores over the same older content, each with
	// its own slot number: at slot idx the guard of a store is "st.idx == idx"
	v := chosen.rep
	for {
		g, ok := v.(gval)
		if !ok {
			return v
		}
		if i.ex.Branch(nil, c.Cmp(smt.OEq, g.st.idx, p.idx), "alias") {
			v = g.st.val
		} else {
			v = g.old
		}
	}
}

// symStoreAgg writes v (of type p.elt) to (the part at p.path of) arr[idx].
func (i *interpreter) symStoreAgg(p symptr, v value) {
	switch t := p.elt.Underlying().(type) {
	case *types.Struct:
		if v == nil {
			v = zero(p.elt)
		}
		sv := v.(structure)
		for f := range sv {
			i.symStoreAgg(symptr{arr: p.arr, idx: p.idx, elt: t.Field(f).Type(), path: append(append([]int(nil), p.path...), f)}, sv[f])
		}
		return
	case *types.Array:
		panic(engineError{"symbolic index: array inside the element"})
	}
	if v == nil {
		v = zero(p.elt)
	}
	c := i.ex.ctx
	if isScalarType(p.elt) {
		k := valueKind(v)
		vt := i.term(v)
		for j := range p.arr {
			l := aggLeafAddr(&p.arr[j], p.path)
			forceT(l, p.elt)
			*l = mkval(c.Ite(c.Cmp(smt.OEq, p.idx, c.BV(uint64(j), 64)), vt, i.term(*l)), k)
		}
		return
	}
	st := &aggStore{i: i, idx: p.idx, val: v}
	for j := range p.arr {
		l := aggLeafAddr(&p.arr[j], p.path)
		forceT(l, p.elt)
		*l = gval{st: st, j: j, old: *l}
	}
}

// sameLeaf: do two slots hold the same non-scalar content (conservatively: false if unsure)?
func sameLeaf(a, b value) (same bool) {
	ga, oka := a.(gval)
	gb, okb := b.(gval)
	if oka != okb {
		return false
	}
	if oka {
		return ga.st == gb.st && sameLeaf(ga.old, gb.old)
	}
	defer func() {
		if recover() != nil {
			same = false
		}
	}()
	switch x := a.(type) {
	case iface:
		y, ok := b.(iface)
		if !ok {
			return false
		}
		if x.t == nil || y.t == nil {
			return x.t == nil && y.t == nil
		}
		return types.Identical(x.t, y.t) && sameLeaf(x.v, y.v)
	case []value:
		y, ok := b.([]value)
		if !ok {
			return false
		}
		if len(x) == 0 && len(y) == 0 && cap(x) == 0 && cap(y) == 0 {
			return true
		}
		return len(x) == len(y) && len(x) > 0 && &x[0] == &y[0]
	case structure:
		y, ok := b.(structure)
		if !ok || len(x) != len(y) {
			return false
		}
		for f := range x {
			if !sameLeaf(x[f], y[f]) {
				return false
			}
		}
		return true
	case *sym:
		y, ok := b.(*sym)
		return ok && x.t == y.t
	}
	return a == b
}

func (p symptr) String() string { return fmt.Sprintf("symptr<%d cells, path %v>", len(p.arr), p.path) }

// plainData: a struct of scalars, interfaces, pointers, strings, slices, maps, funcs and
// nested such structs -- nothing the engine keeps identity-bound state for (mutexes, atomics
// wrappers) and no arrays.
func plainData(t types.Type, depth int) bool {
	if depth > 4 {
		return false
	}
	if n, ok := t.(*types.Named); ok && n.Obj().Pkg() != nil {
		switch n.Obj().Pkg().Path() {
		case "sync", "sync/atomic":
			return false
		}
	}
	switch u := t.Underlying().(type) {
	case *types.Struct:
		for f := 0; f < u.NumFields(); f++ {
			if !plainData(u.Field(f).Type(), depth+1) {
				return false
			}
		}
		return true
	case *types.Array, *types.Chan:
		return false
	}
	return true
}
