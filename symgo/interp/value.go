// Copyright 2013 The Go Authors. All rights reserved.
// Use of this source code is governed by a BSD-style
// license that can be found in the LICENSE file.

package interp

// Values
//
// All interpreter values are "boxed" in the empty interface, value.
// The range of possible dynamic types within value are:
//
// - bool
// - numbers (all built-in int/float/complex types are distinguished)
// - string
// - map[value]value --- maps for which  usesBuiltinMap(keyType)
//   *hashmap        --- maps for which !usesBuiltinMap(keyType)
// - chan value
// - []value --- slices
// - iface --- interfaces.
// - structure --- structs.  Fields are ordered and accessed by numeric indices.
// - array --- arrays.
// - *value --- pointers.  Careful: *value is a distinct type from *array etc.
// - *ssa.Function \
//   *ssa.Builtin   } --- functions.  A nil 'func' is always of type *ssa.Function.
//   *closure      /
// - tuple --- as returned by Return, Next, "value,ok" modes, etc.
// - iter --- iterators from 'range' over map or string.
// - bad --- a poison pill for locals that have gone out of scope.
// - rtype -- the interpreter's concrete implementation of reflect.Type
// - **deferred -- the address of a frame's defer stack for a Defer._Stack.
//
// Note that nil is not on this list.
//
// Pay close attention to whether or not the dynamic type is a pointer.
// The compiler cannot help you since value is an empty interface.

import (
	"bytes"
	"fmt"
	"go/types"
	"io"
	"strings"
	"unsafe"

	"golang.org/x/tools/go/ssa"
)

type value interface{}

type tuple []value

type array []value

type iface struct {
	t types.Type // never an "untyped" type
	v value
}

type structure []value

// For map, array, *array, slice, string or channel.
type iter interface {
	// next returns a Tuple (key, value, ok).
	// key and value are unaliased, e.g. copies of the sequence element.
	next() tuple
}

type closure struct {
	Fn  *ssa.Function
	Env []value
}

type bad struct{}

// Lazy zero cells: the cells of arrays and slices with 64 or more elements start out as nil
// and stand for the zero value of the element type; they are materialised where the element
// type is known (IndexAddr, Index, load, store). Big zeroed buffers are allocated on every
// path by package initialisers (histogram rings: 2 x 32768 cells each) and mostly never read.
func forceT(p *value, t types.Type) value {
	if *p == nil {
		*p = zero(t)
	}
	return *p
}

// forceBytes materialises nil cells of a byte vector.
func forceBytes(cells []value) []value {
	for j := range cells {
		if cells[j] == nil {
			cells[j] = byte(0)
		}
	}
	return cells
}


// Hash functions and equivalence relation:

// hashString computes the FNV hash of s.
func hashString(s string) int {
	var h uint32
	for i := 0; i < len(s); i++ {
		h ^= uint32(s[i])
		h *= 16777619
	}
	return int(h)
}


// usesBuiltinMap returns true if the built-in hash function and
// equivalence relation for type t are consistent with those of the
// interpreter's representation of type t.  Such types are: all basic
// types (bool, numbers, string), pointers and channels.
//
// usesBuiltinMap returns false for types that require a custom map
// implementation: interfaces, arrays and structs.
//
// Panic ensues if t is an invalid map key type: function, map or slice.
func usesBuiltinMap(t types.Type) bool {
	switch t := t.(type) {
	case *types.Basic, *types.Chan, *types.Pointer:
		return true
	case *types.Named, *types.Alias:
		return usesBuiltinMap(t.Underlying())
	case *types.Interface, *types.Array, *types.Struct:
		return false
	}
	panic(fmt.Sprintf("invalid map key type: %T", t))
}

func (x array) eq(t types.Type, _y interface{}) bool {
	y := _y.(array)
	tElt := t.Underlying().(*types.Array).Elem()
	for i := range x {
		forceT(&x[i], tElt)
		forceT(&y[i], tElt)
	}
	for i, xi := range x {
		if !equals(tElt, xi, y[i]) {
			return false
		}
	}
	return true
}


func (x structure) eq(t types.Type, _y interface{}) bool {
	y := _y.(structure)
	tStruct := t.Underlying().(*types.Struct)
	for i, n := 0, tStruct.NumFields(); i < n; i++ {
		if f := tStruct.Field(i); !f.Anonymous() {
			if !equals(f.Type(), x[i], y[i]) {
				return false
			}
		}
	}
	return true
}


// nil-tolerant variant of types.Identical.
func sameType(x, y types.Type) bool {
	if x == nil {
		return y == nil
	}
	return y != nil && types.Identical(x, y)
}

func (x iface) eq(t types.Type, _y interface{}) bool {
	y := _y.(iface)
	return sameType(x.t, y.t) && (x.t == nil || equals(x.t, x.v, y.v))
}




// equals returns true iff x and y are equal according to Go's
// linguistic equivalence relation for type t.
// In a well-typed program, the dynamic types of x and y are
// guaranteed equal.
func equals(t types.Type, x, y value) bool {
	switch x := x.(type) {
	case bool:
		return x == y.(bool)
	case int:
		return x == y.(int)
	case int8:
		return x == y.(int8)
	case int16:
		return x == y.(int16)
	case int32:
		return x == y.(int32)
	case int64:
		return x == y.(int64)
	case uint:
		return x == y.(uint)
	case uint8:
		return x == y.(uint8)
	case uint16:
		return x == y.(uint16)
	case uint32:
		return x == y.(uint32)
	case uint64:
		return x == y.(uint64)
	case uintptr:
		return x == y.(uintptr)
	case float32:
		return x == y.(float32)
	case float64:
		return x == y.(float64)
	case complex64:
		return x == y.(complex64)
	case complex128:
		return x == y.(complex128)
	case string:
		return x == y.(string)
	case *value:
		return x == y.(*value)
	case *chanObj:
		return x == y.(*chanObj)
	case unsafe.Pointer:
		return x == y.(unsafe.Pointer)
	case structure:
		return x.eq(t, y)
	case array:
		return x.eq(t, y)
	case iface:
		return x.eq(t, y)
	}

	// Since map, func and slice don't support comparison, this
	// case is only reachable if one of x or y is literally nil
	// (handled in eqnil) or via interface{} values.
	panic(fmt.Sprintf("comparing uncomparable type %s", t))
}

// reflect.Value struct values don't have a fixed shape, since the
// payload can be a scalar or an aggregate depending on the instance.
// So store (and load) can't simply use recursion over the shape of the
// rhs value, or the lhs, to copy the value; we need the static type
// information.  (We can't make reflect.Value a new basic data type
// because its "structness" is exposed to Go programs.)

// load returns the value of type T in *addr.
func load(T types.Type, addr *value) value {
	if *addr == nil {
		*addr = zero(T)
	}
	switch T := T.Underlying().(type) {
	case *types.Struct:
		v := (*addr).(structure)
		a := make(structure, len(v))
		for i := range a {
			a[i] = load(T.Field(i).Type(), &v[i])
		}
		return a
	case *types.Array:
		v := (*addr).(array)
		a := make(array, len(v))
		for i := range a {
			a[i] = load(T.Elem(), &v[i])
		}
		return a
	default:
		if _, ok := (*addr).(gval); ok {
			*addr = resolveG(*addr)
		}
		return *addr
	}
}

// store stores value v of type T into *addr.
func store(T types.Type, addr *value, v value) {
	if v == nil {
		v = zero(T)
	}
	switch T := T.Underlying().(type) {
	case *types.Struct, *types.Array:
		if *addr == nil {
			*addr = zero(T)
		}
	}
	switch T := T.Underlying().(type) {
	case *types.Struct:
		lhs := (*addr).(structure)
		rhs := v.(structure)
		for i := range lhs {
			store(T.Field(i).Type(), &lhs[i], rhs[i])
		}
	case *types.Array:
		lhs := (*addr).(array)
		rhs := v.(array)
		for i := range lhs {
			store(T.Elem(), &lhs[i], rhs[i])
		}
	default:
		*addr = v
	}
}

// Prints in the style of built-in println.
// (More or less; in gc println is actually a compiler intrinsic and
// can distinguish println(1) from println(interface{}(1)).)
func writeValue(buf *bytes.Buffer, v value) {
	switch v := v.(type) {
	case nil, bool, int, int8, int16, int32, int64, uint, uint8, uint16, uint32, uint64, uintptr, float32, float64, complex64, complex128, string:
		fmt.Fprintf(buf, "%v", v)

	case *omap:
		buf.WriteString("map[")
		if v != nil {
			for j := range v.keys {
				if j > 0 {
					buf.WriteString(" ")
				}
				writeValue(buf, v.keys[j])
				buf.WriteString(":")
				writeValue(buf, v.vals[j])
			}
		}
		buf.WriteString("]")

	case *chanObj:
		fmt.Fprintf(buf, "%p", v)

	case *sym:
		buf.WriteString(v.String())

	case symstr:
		buf.WriteString("<symstr>")

	case *value:
		if v == nil {
			buf.WriteString("<nil>")
		} else {
			fmt.Fprintf(buf, "%p", v)
		}

	case iface:
		fmt.Fprintf(buf, "(%s, ", v.t)
		writeValue(buf, v.v)
		buf.WriteString(")")

	case structure:
		buf.WriteString("{")
		for i, e := range v {
			if i > 0 {
				buf.WriteString(" ")
			}
			writeValue(buf, e)
		}
		buf.WriteString("}")

	case array:
		buf.WriteString("[")
		for i, e := range v {
			if i > 0 {
				buf.WriteString(" ")
			}
			writeValue(buf, e)
		}
		buf.WriteString("]")

	case []value:
		buf.WriteString("[")
		for i, e := range v {
			if i > 0 {
				buf.WriteString(" ")
			}
			writeValue(buf, e)
		}
		buf.WriteString("]")

	case *ssa.Function, *ssa.Builtin, *closure:
		fmt.Fprintf(buf, "%p", v) // (an address)

	case tuple:
		// Unreachable in well-formed Go programs
		buf.WriteString("(")
		for i, e := range v {
			if i > 0 {
				buf.WriteString(", ")
			}
			writeValue(buf, e)
		}
		buf.WriteString(")")

	default:
		fmt.Fprintf(buf, "<%T>", v)
	}
}

// Implements printing of Go values in the style of built-in println.
func toString(v value) string {
	var b bytes.Buffer
	writeValue(&b, v)
	return b.String()
}

// ------------------------------------------------------------------------
// Iterators

type stringIter struct {
	*strings.Reader
	i int
}

func (it *stringIter) next() tuple {
	okv := make(tuple, 3)
	ch, n, err := it.ReadRune()
	ok := err != io.EOF
	okv[0] = ok
	if ok {
		okv[1] = it.i
		okv[2] = ch
	}
	it.i += n
	return okv
}

