package interp

// Externals: functions of the target program that are not interpreted from their SSA body
// but modelled by the engine. Every model here is part of every claim that reaches it.

import (
	"fmt"
	"go/token"
	"go/types"
	"math"
	"strings"

	"golang.org/x/tools/go/ssa"

	"verif/symgo/smt"
)

type externalFn func(fr *frame, args []value) value

// Key strings are from Function.String().
var externals = make(map[string]externalFn)

func zeroResults(fn *ssa.Function) value {
	res := fn.Signature.Results()
	switch res.Len() {
	case 0:
		return nil
	case 1:
		return zero(res.At(0).Type())
	}
	t := make(tuple, res.Len())
	for j := range t {
		t[j] = zero(res.At(j).Type())
	}
	return t
}

// prefixExternal gives whole-package policies (log = no-op, ...).
func prefixExternal(pkgPath string, fn *ssa.Function) externalFn {
	switch pkgPath {
	case "log":
		n := fn.Name()
		switch {
		case strings.HasPrefix(n, "Fatal"):
			return func(fr *frame, args []value) value {
				fr.i.ex.fail("crash", "crash:log.Fatal", "log.Fatal called", fr.i.ex.modelOrNil())
				panic(pathEnd{"fatal"})
			}
		case strings.HasPrefix(n, "Panic"):
			return func(fr *frame, args []value) value { panic(targetPanic{"log.Panic"}) }
		}
		return func(fr *frame, args []value) value { return zeroResults(fn) }
	case "net/http", "expvar", "net/http/pprof", "runtime/debug", "runtime/pprof", "os/signal":
		return func(fr *frame, args []value) value { return zeroResults(fn) }
	}
	return nil
}

func (ex *explorer) modelOrNil() smt.Model {
	if ex.ensureModelNoPanic() {
		return ex.model
	}
	return nil
}

func init() {
	for k, v := range map[string]externalFn{
		// ---- runtime / os
		"runtime.Gosched":      func(fr *frame, a []value) value { fr.i.sch.gosched(); return nil },
		"runtime.GOMAXPROCS":   func(fr *frame, a []value) value { return 16 },
		"runtime.NumCPU":       func(fr *frame, a []value) value { return 16 },
		"runtime.NumGoroutine": func(fr *frame, a []value) value { return fr.i.sch.live() },
		"runtime.GC":           func(fr *frame, a []value) value { return nil },
		"runtime.ReadMemStats": func(fr *frame, a []value) value { return nil },
		"runtime.KeepAlive":    func(fr *frame, a []value) value { return nil },
		"runtime.SetFinalizer": func(fr *frame, a []value) value { return nil },
		"runtime.Stack":        func(fr *frame, a []value) value { return 0 },
		"runtime.Callers":      func(fr *frame, a []value) value { return 0 },
		"runtime.Caller":       func(fr *frame, a []value) value { return tuple{uintptr(0), "", 0, false} },
		"runtime/debug.Stack":  func(fr *frame, a []value) value { return []value{} },
		"os.Exit": func(fr *frame, a []value) value {
			fr.i.ex.fail("crash", "crash:os.Exit", "os.Exit called", fr.i.ex.modelOrNil())
			panic(pathEnd{"exit"})
		},
		"os.Getenv": func(fr *frame, a []value) value { return "" },
		"time.Sleep": func(fr *frame, a []value) value { fr.i.sch.gosched(); return nil },

		// ---- internal/bytealg (assembly on amd64)
		"internal/bytealg.IndexByte":       extIndexByte,
		"internal/bytealg.IndexByteString": extIndexByte,
		"internal/bytealg.Equal":           extBytesEqual,
		"bytes.Equal":                      extBytesEqual,
		"internal/bytealg.Compare":         extCompare,
		"internal/bytealg.Count":           extCount,
		"internal/bytealg.CountString":     extCount,
		"internal/bytealg.Index":           extIndex,
		"internal/bytealg.IndexString":     extIndex,
		"internal/bytealg.MakeNoZero": func(fr *frame, a []value) value {
			n := asInt64(fr.i.concrete(fr, a[0], "makelen"))
			s := make([]value, n)
			for j := range s {
				s[j] = byte(0)
			}
			return s
		},
		"internal/stringslite.Index": nil,
		"internal/race.Acquire":      func(fr *frame, a []value) value { return nil },

		// ---- math (FP theory)
		"math.Ceil":  func(fr *frame, a []value) value { return fr.i.fpUn(smt.OFCeil, a[0]) },
		"math.Floor": func(fr *frame, a []value) value { return fr.i.fpUn(smt.OFFloor, a[0]) },
		"math.Min": func(fr *frame, a []value) value {
			if !isSym(a[0]) && !isSym(a[1]) {
				return math.Min(a[0].(float64), a[1].(float64))
			}
			c := fr.i.ex.ctx
			r := mkval(c.FMin(fr.i.term(a[0]), fr.i.term(a[1])), types.Float64)
			if rs, ok := r.(*sym); ok {
				if ao, bo := intOrigOf(c, a[0]), intOrigOf(c, a[1]); ao != nil && bo != nil {
					rs.intOrig = c.Ite(c.Cmp(smt.OSlt, ao, bo), ao, bo)
				}
			}
			return r
		},
		"math.Abs": func(fr *frame, a []value) value {
			if f, ok := a[0].(float64); ok {
				return math.Abs(f)
			}
			panic(engineError{"math.Abs of a symbolic value"})
		},
		"math.Float64bits": func(fr *frame, a []value) value {
			if f, ok := a[0].(float64); ok {
				return math.Float64bits(f)
			}
			panic(engineError{"math.Float64bits of a symbolic value"})
		},
		"math.Float64frombits": func(fr *frame, a []value) value {
			if u, ok := a[0].(uint64); ok {
				return math.Float64frombits(u)
			}
			panic(engineError{"math.Float64frombits of a symbolic value"})
		},
		"math.Float32bits":     func(fr *frame, a []value) value { return math.Float32bits(a[0].(float32)) },
		"math.Float32frombits": func(fr *frame, a []value) value { return math.Float32frombits(a[0].(uint32)) },
		"math.IsNaN": func(fr *frame, a []value) value {
			if f, ok := a[0].(float64); ok {
				return math.IsNaN(f)
			}
			return mkval(fr.i.ex.ctx.FUn(smt.OFIsNaN, fr.i.term(a[0])), types.Bool)
		},
		"math.Inf":  func(fr *frame, a []value) value { return math.Inf(a[0].(int)) },
		"math.NaN":  func(fr *frame, a []value) value { return math.NaN() },
		"math.Sqrt": func(fr *frame, a []value) value { return math.Sqrt(a[0].(float64)) },
		"math.Log":  func(fr *frame, a []value) value { return math.Log(a[0].(float64)) },
		"math.Exp":  func(fr *frame, a []value) value { return math.Exp(a[0].(float64)) },
		"math.Pow":  func(fr *frame, a []value) value { return math.Pow(a[0].(float64), a[1].(float64)) },
	} {
		if v != nil {
			externals[k] = v
		}
	}
}

func (s *scheduler) live() int {
	n := 0
	for _, g := range s.gs {
		if !g.done {
			n++
		}
	}
	return n
}

func (i *interpreter) fpUn(op smt.Op, x value) value {
	if s, ok := x.(*sym); ok && s.intOrig != nil {
		return s // ceil/floor of an integer-valued float
	}
	if f, ok := x.(float64); ok {
		switch op {
		case smt.OFCeil:
			return math.Ceil(f)
		case smt.OFFloor:
			return math.Floor(f)
		}
	}
	return mkval(i.ex.ctx.FUn(op, i.term(x)), types.Float64)
}

func cellsOf(v value) []value {
	switch x := v.(type) {
	case []value:
		return forceBytes(x)
	case string:
		return strCells(x)
	case symstr:
		return []value(x)
	case absBytes:
		panic(engineError{"content access on an abstract-length byte slice"})
	}
	panic(engineError{fmt.Sprintf("cellsOf %T", v)})
}

// extIndexByte scans for the first occurrence; a symbolic cell forks on equality.
func extIndexByte(fr *frame, args []value) value {
	cells := cellsOf(args[0])
	c := fr.i.ex.ctx
	want := args[1]
	for j, b := range cells {
		if !isSym(b) && !isSym(want) {
			if b.(byte) == want.(byte) {
				return j
			}
			continue
		}
		fr.curInstr = nil
		if fr.i.ex.Branch(fr, c.Cmp(smt.OEq, fr.i.term(b), fr.i.term(want)), "indexbyte") {
			return j
		}
	}
	return -1
}

func extBytesEqual(fr *frame, args []value) value {
	if _, ok := args[0].(absBytes); ok {
		panic(engineError{"bytes.Equal on abstract-length bytes"})
	}
	a, b := cellsOf(args[0]), cellsOf(args[1])
	return mkval(fr.i.bytesEqTerm(a, b), types.Bool)
}

func extCompare(fr *frame, args []value) value {
	a, b := cellsOf(args[0]), cellsOf(args[1])
	lt := fr.i.symStringOp(token.LSS, mkstrAny(a), mkstrAny(b))
	eq := fr.i.symStringOp(token.EQL, mkstrAny(a), mkstrAny(b))
	c := fr.i.ex.ctx
	r := c.Ite(fr.i.term(lt), c.BV(^uint64(0), 64), c.Ite(fr.i.term(eq), c.BV(0, 64), c.BV(1, 64)))
	return mkval(r, types.Int)
}

func mkstrAny(cells []value) value { return mkstr(cells) }

func extCount(fr *frame, args []value) value {
	cells := cellsOf(args[0])
	c := fr.i.ex.ctx
	n := c.BV(0, 64)
	for _, b := range cells {
		eq := c.Cmp(smt.OEq, fr.i.term(b), fr.i.term(args[1]))
		n = c.Bin(smt.OAdd, n, c.Ite(eq, c.BV(1, 64), c.BV(0, 64)))
	}
	return mkval(n, types.Int)
}

// extIndex finds the first occurrence of a (short) pattern.
func extIndex(fr *frame, args []value) value {
	a, b := cellsOf(args[0]), cellsOf(args[1])
	for j := 0; j+len(b) <= len(a); j++ {
		eq := fr.i.bytesEqTerm(a[j:j+len(b)], b)
		fr.curInstr = nil
		if fr.i.ex.Branch(fr, eq, "index") {
			return j
		}
	}
	return -1
}
