package interp

// Init snapshot: package initialisation (~50k instructions: metric registration, tables,
// pools) used to be re-executed on every path and dominated the cost of every harness. A
// worker now runs it once in a template interpreter and every path starts from a deep copy
// of the template's heap that preserves aliasing (pointer identity, overlapping slices).
//
// The copy works on cell addresses: every reachable []value backing store and every *value
// is an extent [lo,hi) of 16-byte cells; overlapping extents belong to one allocation and are
// merged into blocks; a block is copied cell by cell, rewriting slice headers and pointers
// into the corresponding new block. Cells that are nil (lazy zeros) are skipped, which makes
// the 2M cells of the histogram rings free. Goroutines started by initialisers are deferred
// until after the snapshot (a legal schedule). If anything symbolic or not understood is
// reachable, the template is abandoned and initialisers run per path as before.

import (
	"fmt"
	"sort"
	"unsafe"

	"golang.org/x/tools/go/ssa"
)

type pendingGo struct {
	name string
	fn   value
	args []value
}

type snapBlock struct {
	lo, hi uintptr
	old    []value
	live   []int32 // indices of non-nil cells
}

type template struct {
	ok      bool
	why     string
	blocks  []snapBlock
	globals map[*ssa.Global]*value
	pending []pendingGo
	env     envState
	small   int // total cells of the blocks below bigArrayLen (one arena per path)
	// identity-preserved engine objects
	omaps    []*omap
	closures []*closure
	chans    []*chanObj
}

const cellSize = unsafe.Sizeof(value(nil))

type scanner struct {
	ext      [][2]uintptr
	seenExt  map[[2]uintptr]bool
	omaps    map[*omap]bool
	closures map[*closure]bool
	chans    map[*chanObj]bool
	bad      string
}

func (s *scanner) cells(c []value) {
	if cap(c) == 0 {
		return
	}
	c = c[:cap(c)]
	lo := uintptr(unsafe.Pointer(unsafe.SliceData(c)))
	k := [2]uintptr{lo, lo + uintptr(len(c))*cellSize}
	if s.seenExt[k] {
		return
	}
	s.seenExt[k] = true
	s.ext = append(s.ext, k)
	for _, x := range c {
		s.scan(x)
	}
}

func (s *scanner) owned(c []value) {
	for _, x := range c {
		s.scan(x)
	}
}

func (s *scanner) scan(v value) {
	if s.bad != "" {
		return
	}
	switch x := v.(type) {
	case nil, bool, int, int8, int16, int32, int64, uint, uint8, uint16, uint32, uint64, uintptr, float32, float64, complex64, complex128, string, unsafe.Pointer:
	case *ssa.Function, *ssa.Builtin:
	case []value:
		s.cells(x)
	case structure:
		s.cells(x)
	case array:
		s.cells(x)
	case tuple:
		s.owned(x)
	case iface:
		s.scan(x.v)
	case *value:
		if x == nil {
			return
		}
		lo := uintptr(unsafe.Pointer(x))
		k := [2]uintptr{lo, lo + cellSize}
		if s.seenExt[k] {
			return
		}
		s.seenExt[k] = true
		s.ext = append(s.ext, k)
		s.scan(*x)
	case *omap:
		if x == nil || s.omaps[x] {
			return
		}
		s.omaps[x] = true
		s.owned(x.keys)
		s.owned(x.vals)
	case *closure:
		if x == nil || s.closures[x] {
			return
		}
		s.closures[x] = true
		s.owned(x.Env)
	case *chanObj:
		if x == nil || s.chans[x] {
			return
		}
		if len(x.recvq) > 0 || len(x.sendq) > 0 {
			s.bad = "channel with waiters after package init"
			return
		}
		s.chans[x] = true
		s.owned(x.buf)
	default:
		s.bad = fmt.Sprintf("value of type %T reachable after package init", v)
	}
}

// buildTemplate runs the package initialisers once and analyses the resulting heap.
func buildTemplate(r *Run, prog *ssa.Program, pkg *ssa.Package, wk *workerCtx) *template {
	t := &template{}
	ex := &explorer{run: r, proved: map[string]int{}, concOK: map[string]int{}, template: true}
	i := newInterpreter(prog, ex, wk)
	i.deferGo = true
	func() {
		defer func() {
			if p := recover(); p != nil {
				t.why = fmt.Sprintf("package init did not complete in the template: %v", panicString(p))
			}
		}()
		i.runInits(pkg)
		if r.cfg.Setup != "" {
			f := pkg.Func(r.cfg.Setup)
			if f == nil {
				panic(engineError{"set-up function not found: " + r.cfg.Setup})
			}
			i.inInit++
			call(i, nil, 0, f, nil)
			i.inInit--
		}
		t.ok = true
	}()
	// big vectors handed out to the template stay with it for ever
	i.bigUsed = nil
	if !t.ok {
		return t
	}
	if len(i.sch.gs) > 1 || len(i.pools) > 0 || len(i.wgs) > 0 {
		for _, po := range i.pools {
			if len(po.items) > 0 {
				t.ok, t.why = false, "sync.Pool holds objects after package init"
				return t
			}
		}
	}
	for _, m := range i.mutexList {
		if m.writer != nil || len(m.readers) > 0 {
			t.ok, t.why = false, "mutex held after package init"
			return t
		}
	}
	sc := &scanner{seenExt: map[[2]uintptr]bool{}, omaps: map[*omap]bool{}, closures: map[*closure]bool{}, chans: map[*chanObj]bool{}}
	for _, p := range i.globals {
		sc.scan(p)
	}
	for _, pg := range i.pendingGo {
		sc.scan(pg.fn)
		sc.owned(pg.args)
	}
	if sc.bad != "" {
		t.ok, t.why = false, sc.bad
		return t
	}
	sort.Slice(sc.ext, func(a, b int) bool { return sc.ext[a][0] < sc.ext[b][0] })
	for _, e := range sc.ext {
		if n := len(t.blocks); n > 0 && e[0] < t.blocks[n-1].hi {
			if e[1] > t.blocks[n-1].hi {
				t.blocks[n-1].hi = e[1]
			}
			continue
		}
		t.blocks = append(t.blocks, snapBlock{lo: e[0], hi: e[1]})
	}
	for k := range t.blocks {
		b := &t.blocks[k]
		n := int((b.hi - b.lo) / cellSize)
		if n < bigArrayLen {
			t.small += n
		}
		b.old = unsafe.Slice((*value)(unsafe.Pointer(b.lo)), n)
		for j, c := range b.old {
			if c != nil {
				b.live = append(b.live, int32(j))
			}
		}
	}
	t.globals = i.globals
	t.pending = i.pendingGo
	t.env = *i.env
	for o := range sc.omaps {
		t.omaps = append(t.omaps, o)
	}
	for c := range sc.closures {
		t.closures = append(t.closures, c)
	}
	for c := range sc.chans {
		t.chans = append(t.chans, c)
	}
	return t
}

type instantiation struct {
	t        *template
	news     [][]value
	omaps    map[*omap]*omap
	closures map[*closure]*closure
	chans    map[*chanObj]*chanObj
}

func (in *instantiation) block(p uintptr) int {
	bl := in.t.blocks
	k := sort.Search(len(bl), func(j int) bool { return bl[j].hi > p })
	if k < len(bl) && bl[k].lo <= p {
		return k
	}
	return -1
}

func (in *instantiation) slice(c []value) []value {
	if cap(c) == 0 {
		return c
	}
	p := uintptr(unsafe.Pointer(unsafe.SliceData(c)))
	k := in.block(p)
	if k < 0 {
		panic(engineError{"snapshot: slice outside the analysed heap"})
	}
	off := int((p - in.t.blocks[k].lo) / cellSize)
	return in.news[k][off : off+len(c) : off+cap(c)]
}

func (in *instantiation) ownedCopy(c []value) []value {
	if c == nil {
		return nil
	}
	out := make([]value, len(c), cap(c))
	for j, x := range c {
		out[j] = in.rewrite(x)
	}
	return out
}

func (in *instantiation) rewrite(v value) value {
	switch x := v.(type) {
	case []value:
		return in.slice(x)
	case structure:
		return structure(in.slice(x))
	case array:
		return array(in.slice(x))
	case tuple:
		return tuple(in.ownedCopy(x))
	case iface:
		return iface{t: x.t, v: in.rewrite(x.v)}
	case *value:
		if x == nil {
			return x
		}
		p := uintptr(unsafe.Pointer(x))
		k := in.block(p)
		if k < 0 {
			panic(engineError{"snapshot: pointer outside the analysed heap"})
		}
		return &in.news[k][int((p-in.t.blocks[k].lo)/cellSize)]
	case *omap:
		if x == nil {
			return x
		}
		if n, ok := in.omaps[x]; ok {
			return n
		}
		n := &omap{kt: x.kt}
		in.omaps[x] = n
		n.keys = in.ownedCopy(x.keys)
		n.vals = in.ownedCopy(x.vals)
		return n
	case *closure:
		if x == nil {
			return x
		}
		if n, ok := in.closures[x]; ok {
			return n
		}
		n := &closure{Fn: x.Fn}
		in.closures[x] = n
		n.Env = in.ownedCopy(x.Env)
		return n
	case *chanObj:
		if x == nil {
			return x
		}
		if n, ok := in.chans[x]; ok {
			return n
		}
		n := &chanObj{cap: x.cap, closed: x.closed, timer: x.timer}
		in.chans[x] = n
		n.buf = in.ownedCopy(x.buf)
		return n
	}
	return v
}

// instantiate gives interpreter i a private copy of the template's heap.
func (t *template) instantiate(i *interpreter) {
	in := &instantiation{t: t, news: make([][]value, len(t.blocks)), omaps: map[*omap]*omap{}, closures: map[*closure]*closure{}, chans: map[*chanObj]*chanObj{}}
	// one arena per worker, recycled between paths (a fresh 3 MB allocation per path made the
	// heap lock and page faults the bottleneck of parallel exploration)
	if cap(i.wk.arena) < t.small {
		i.wk.arena = make([]value, t.small)
	} else {
		clear(i.wk.arena)
	}
	arena := i.wk.arena[:t.small]
	off := 0
	for k := range t.blocks {
		n := len(t.blocks[k].old)
		if n >= bigArrayLen {
			in.news[k] = i.bigAlloc(n)
			if len(t.blocks[k].live) > 0 {
				i.bigUsed[len(i.bigUsed)-1].dirty = true
			}
		} else {
			in.news[k] = arena[off : off+n : off+n]
			off += n
		}
	}
	for k := range t.blocks {
		b := &t.blocks[k]
		nw := in.news[k]
		for _, j := range b.live {
			nw[j] = in.rewrite(b.old[j])
		}
	}
	for g, p := range t.globals {
		i.globals[g] = in.rewrite(p).(*value)
	}
	e := t.env
	i.env = &e
	for _, pg := range t.pending {
		fn, args := in.rewrite(pg.fn), in.ownedCopy(pg.args)
		name := pg.name
		i.sch.spawn(name, func() { call(i, nil, 0, fn, args) })
	}
}
