package interp

// Intrinsics: the harness API (rt.*) and the environment models (sync, atomic, time,
// crypto/rand, md5, fmt).

import (
	"crypto/md5"
	"fmt"
	"go/types"
	"strconv"
	"strings"

	"golang.org/x/tools/go/ssa"

	"verif/symgo/smt"
)

type envState struct {
	clock       *smt.Term // seconds (64 bit); nil = concrete default
	clockFrozen bool
	clockSet    bool
	nowCalls    int
	monoNanos   uint64
	randCalls   int
	md5uf       map[string]array
	randDistinct bool
	randBufs    [][]value
	observed    []string
}

const defaultClock = 1790000000

type poolObj struct {
	items    []value
	released map[*value]bool
}
type onceObj struct{ done bool }

var rtExternals = map[string]externalFn{}

func (ex *explorer) newInput(name string, k types.BasicKind) value {
	if ex.template {
		panic(engineError{"symbolic input during package init"})
	}
	w, _, _, _ := kindInfo(k)
	if v, ok := ex.pins[name]; ok {
		// re-execution with this input concrete (refineUF)
		ex.tape = append(ex.tape, TapeEntry{Name: name, W: w, Val: v})
		if w == 0 {
			return v != 0
		}
		return concreteOfKind(k, v)
	}
	var t *smt.Term
	if w == 0 {
		t = ex.ctx.Var(name, smt.SBool, 0)
	} else {
		t = ex.ctx.Var(name, smt.SBV, w)
	}
	ex.tape = append(ex.tape, TapeEntry{Name: name, W: w, term: t})
	return &sym{t: t, k: k}
}

func boolTerm(i *interpreter, v value) *smt.Term { return i.term(v) }

func init() {
	rt := rtExternals
	in := func(k types.BasicKind) externalFn {
		return func(fr *frame, a []value) value { return fr.i.ex.newInput(a[0].(string), k) }
	}
	rt["Symbolic"] = func(fr *frame, a []value) value { return true }
	rt["U8"] = in(types.Uint8)
	rt["U16"] = in(types.Uint16)
	rt["U32"] = in(types.Uint32)
	rt["U64"] = in(types.Uint64)
	rt["I64"] = in(types.Int64)
	rt["I32"] = in(types.Int32)
	rt["Int"] = in(types.Int)
	rt["Bool"] = in(types.Bool)
	rt["Bytes"] = func(fr *frame, a []value) value {
		n := int(asInt64(a[1]))
		s := make([]value, n)
		for j := range s {
			s[j] = fr.i.ex.newInput(fmt.Sprintf("%s[%d]", a[0].(string), j), types.Uint8)
		}
		return s
	}
	rt["IntIn"] = func(fr *frame, a []value) value {
		ex := fr.i.ex
		lo, hi := asInt64(a[1]), asInt64(a[2])
		if lo == hi {
			ex.tape = append(ex.tape, TapeEntry{Name: a[0].(string), W: 64, Val: uint64(lo)})
			return int(lo)
		}
		v := ex.newInput(a[0].(string), types.Int).(*sym)
		c := ex.ctx
		ex.Assume(c.And(c.Cmp(smt.OSle, c.BV(uint64(lo), 64), v.t), c.Cmp(smt.OSle, v.t, c.BV(uint64(hi), 64))))
		return v
	}
	rt["Assume"] = func(fr *frame, a []value) value { fr.i.ex.Assume(fr.i.term(a[0])); return nil }
	rt["Assert"] = func(fr *frame, a []value) value {
		fr.i.ex.Assert(a[0].(string), fr.i.term(a[1]), "")
		return nil
	}
	rt["Fail"] = func(fr *frame, a []value) value {
		fr.i.ex.Assert(a[0].(string), fr.i.ex.ctx.Bool(false), a[1].(string))
		return nil
	}
	rt["Reach"] = func(fr *frame, a []value) value {
		fr.i.ex.reached = append(fr.i.ex.reached, a[0].(string))
		return nil
	}
	rt["Choice"] = func(fr *frame, a []value) value {
		ex := fr.i.ex
		n := int(asInt64(a[1]))
		c := ex.Choice(n, "choice")
		ex.tape = append(ex.tape, TapeEntry{Name: a[0].(string), W: -1, Val: uint64(c)})
		return c
	}
	rt["Param"] = func(fr *frame, a []value) value {
		if v, ok := fr.i.ex.run.cfg.Params[a[0].(string)]; ok {
			return int(v)
		}
		return a[1]
	}
	rt["Stop"] = func(fr *frame, a []value) value { panic(pathEnd{"stop"}) }
	rt["Not"] = func(fr *frame, a []value) value { return mkval(fr.i.ex.ctx.Not(fr.i.term(a[0])), types.Bool) }
	rt["And"] = func(fr *frame, a []value) value {
		return mkval(fr.i.ex.ctx.And(fr.i.term(a[0]), fr.i.term(a[1])), types.Bool)
	}
	rt["Or"] = func(fr *frame, a []value) value {
		return mkval(fr.i.ex.ctx.Or(fr.i.term(a[0]), fr.i.term(a[1])), types.Bool)
	}
	rt["Implies"] = func(fr *frame, a []value) value {
		return mkval(fr.i.ex.ctx.Implies(fr.i.term(a[0]), fr.i.term(a[1])), types.Bool)
	}
	ite := func(k types.BasicKind) externalFn {
		return func(fr *frame, a []value) value {
			if b, ok := a[0].(bool); ok {
				if b {
					return a[1]
				}
				return a[2]
			}
			return mkval(fr.i.ex.ctx.Ite(fr.i.term(a[0]), fr.i.term(a[1]), fr.i.term(a[2])), k)
		}
	}
	rt["IteU8"] = ite(types.Uint8)
	rt["IteU16"] = ite(types.Uint16)
	rt["IteU32"] = ite(types.Uint32)
	rt["IteU64"] = ite(types.Uint64)
	rt["IteI64"] = ite(types.Int64)
	rt["IteInt"] = ite(types.Int)
	rt["IteBool"] = ite(types.Bool)
	rt["BytesEq"] = func(fr *frame, a []value) value {
		return mkval(fr.i.bytesEqTerm(cellsOf(a[0]), cellsOf(a[1])), types.Bool)
	}
	// IteBytes(c, a, b) with len(a)==len(b): cell-wise select
	rt["IteBytes"] = func(fr *frame, a []value) value {
		x, y := cellsOf(a[1]), cellsOf(a[2])
		if b, ok := a[0].(bool); ok {
			if b {
				return a[1]
			}
			return a[2]
		}
		if len(x) != len(y) {
			panic(engineError{"rt.IteBytes: different lengths"})
		}
		out := make([]value, len(x))
		for j := range x {
			out[j] = mkval(fr.i.ex.ctx.Ite(fr.i.term(a[0]), fr.i.term(x[j]), fr.i.term(y[j])), types.Uint8)
		}
		return out
	}
	rt["Fix"] = func(fr *frame, a []value) value { return fr.i.concrete(fr, a[0], "fix") }
	rt["FixU64"] = rt["Fix"]
	rt["FixBool"] = rt["Fix"]
	rt["StackDepth"] = func(fr *frame, a []value) value {
		n := 0
		for f := fr; f != nil; f = f.caller {
			n++
		}
		return n
	}
	rt["Yield"] = func(fr *frame, a []value) value { fr.i.sch.yield("rt"); return nil }
	rt["Gosched"] = func(fr *frame, a []value) value { fr.i.sch.gosched(); return nil }
	rt["WaitQuiescent"] = func(fr *frame, a []value) value { return fr.i.sch.waitQuiescent() }
	rt["BlockedDesc"] = func(fr *frame, a []value) value { return fr.i.sch.blockedDesc() }
	rt["HeldLocks"] = func(fr *frame, a []value) value {
		n := 0
		for _, m := range fr.i.mutexList {
			if m.writer != nil || len(m.readers) > 0 {
				n++
			}
		}
		return n
	}
	rt["HeldByMe"] = func(fr *frame, a []value) value { return len(fr.i.sch.cur.held) }
	rt["GoroutineID"] = func(fr *frame, a []value) value { return fr.i.sch.cur.id }
	rt["LiveGoroutines"] = func(fr *frame, a []value) value { return fr.i.sch.live() }
	rt["BytesLen"] = func(fr *frame, a []value) value {
		if s, ok := a[0].(*sym); ok {
			return absBytes{s}
		}
		n := asInt64(a[0])
		out := make([]value, n)
		for j := range out {
			out[j] = byte(0)
		}
		return out
	}
	rt["AllocBudget"] = func(fr *frame, a []value) value {
		ex := fr.i.ex
		ex.allocBudget = ex.ctx.ZExt(fr.i.term(a[0]), 64)
		ex.allocTotal = ex.ctx.BV(0, 64)
		return nil
	}
	rt["AllocBudgetOff"] = func(fr *frame, a []value) value { fr.i.ex.allocBudget = nil; return nil }
	rt["Subst"] = func(fr *frame, a []value) value {
		fr.i.subst[a[0].(string)] = a[1].(iface).v
		return nil
	}
	rt["ClockSet"] = func(fr *frame, a []value) value {
		e := fr.i.env
		e.clock = fr.i.ex.ctx.SExt(fr.i.term(a[0]), 64)
		e.clockSet = true
		return nil
	}
	rt["ClockFreeze"] = func(fr *frame, a []value) value { fr.i.env.clockFrozen = a[0].(bool); return nil }
	rt["Clock"] = func(fr *frame, a []value) value { return mkval(fr.i.clockNow(), types.Int64) }
	rt["RandDistinct"] = func(fr *frame, a []value) value { fr.i.env.randDistinct = a[0].(bool); return nil }
	rt["Logf"] = func(fr *frame, a []value) value {
		fr.i.ex.tracef("%s", fr.i.sprintf(fr, a[0], a[1].([]value)))
		return nil
	}
	rt["Observe"] = func(fr *frame, a []value) value { return nil }
	rt["Start"] = func(fr *frame, a []value) value { return nil }
	rt["Finish"] = func(fr *frame, a []value) value { return nil }
	rt["PoolHavoc"] = func(fr *frame, a []value) value { fr.i.ex.poolHavoc = a[0].(bool); return nil }

	ext := externals
	// ---- sync
	ext["(*sync.Mutex).Lock"] = func(fr *frame, a []value) value { fr.i.sch.lock(fr.i.mutexOf(a[0].(*value)), false); return nil }
	ext["(*sync.Mutex).Unlock"] = func(fr *frame, a []value) value {
		fr.i.sch.unlock(fr.i.mutexOf(a[0].(*value)), false)
		return nil
	}
	ext["(*sync.Mutex).TryLock"] = func(fr *frame, a []value) value {
		return fr.i.sch.tryLock(fr.i.mutexOf(a[0].(*value)), false)
	}
	ext["(*sync.RWMutex).Lock"] = ext["(*sync.Mutex).Lock"]
	ext["(*sync.RWMutex).Unlock"] = ext["(*sync.Mutex).Unlock"]
	ext["(*sync.RWMutex).RLock"] = func(fr *frame, a []value) value { fr.i.sch.lock(fr.i.mutexOf(a[0].(*value)), true); return nil }
	ext["(*sync.RWMutex).RUnlock"] = func(fr *frame, a []value) value {
		fr.i.sch.unlock(fr.i.mutexOf(a[0].(*value)), true)
		return nil
	}
	ext["(*sync.WaitGroup).Add"] = func(fr *frame, a []value) value {
		fr.i.sch.wgAdd(fr.i.wgOf(a[0].(*value)), int(asInt64(a[1])))
		return nil
	}
	ext["(*sync.WaitGroup).Done"] = func(fr *frame, a []value) value {
		fr.i.sch.wgAdd(fr.i.wgOf(a[0].(*value)), -1)
		return nil
	}
	ext["(*sync.WaitGroup).Wait"] = func(fr *frame, a []value) value { fr.i.sch.wgWait(fr.i.wgOf(a[0].(*value))); return nil }
	ext["(*sync.Once).Do"] = func(fr *frame, a []value) value {
		p := a[0].(*value)
		o := fr.i.onces[p]
		if o == nil {
			o = &onceObj{}
			fr.i.onces[p] = o
		}
		if !o.done {
			o.done = true
			call(fr.i, fr, 0, a[1], nil)
		}
		return nil
	}
	ext["(*sync.Pool).Get"] = func(fr *frame, a []value) value {
		p := a[0].(*value)
		po := fr.i.poolOf(p)
		if n := len(po.items); n > 0 {
			v := po.items[n-1]
			po.items = po.items[:n-1]
			fr.i.poolReuse(fr, po, v)
			return v
		}
		st := (*p).(structure)
		newf := st[len(st)-1] // field New is the last field of sync.Pool
		if newf == nil {
			return iface{}
		}
		if f, ok := newf.(*ssa.Function); ok && f == nil {
			return iface{}
		}
		return call(fr.i, fr, 0, newf, nil)
	}
	ext["(*sync.Pool).Put"] = func(fr *frame, a []value) value {
		po := fr.i.poolOf(a[0].(*value))
		po.items = append(po.items, a[1])
		fr.i.poolRelease(fr, po, a[1])
		return nil
	}

	// ---- sync/atomic
	for _, ty := range []string{"Int32", "Int64", "Uint32", "Uint64", "Uintptr"} {
		ty := ty
		k := map[string]types.BasicKind{"Int32": types.Int32, "Int64": types.Int64, "Uint32": types.Uint32, "Uint64": types.Uint64, "Uintptr": types.Uintptr}[ty]
		ext["sync/atomic.Add"+ty] = func(fr *frame, a []value) value {
			fr.i.sch.yield("atomic")
			if sp, ok := a[0].(symptr); ok {
				// element chosen by a symbolic index: read-modify-write through the ite encoding
				nv := mkval(fr.i.ex.ctx.Bin(smt.OAdd, fr.i.term(fr.i.symLoad(sp)), fr.i.term(a[1])), k)
				fr.i.symStore(sp, nv)
				return nv
			}
			p := a[0].(*value)
			if isSym(*p) || isSym(a[1]) {
				*p = mkval(fr.i.ex.ctx.Bin(smt.OAdd, fr.i.term(*p), fr.i.term(a[1])), k)
			} else {
				*p = concreteOfKind(k, rawBits(*p)+rawBits(a[1]))
			}
			return *p
		}
		ext["sync/atomic.Load"+ty] = func(fr *frame, a []value) value {
			fr.i.sch.yield("atomic")
			if sp, ok := a[0].(symptr); ok {
				return fr.i.symLoad(sp)
			}
			return *(a[0].(*value))
		}
		ext["sync/atomic.Store"+ty] = func(fr *frame, a []value) value {
			fr.i.sch.yield("atomic")
			*(a[0].(*value)) = a[1]
			return nil
		}
		ext["sync/atomic.Swap"+ty] = func(fr *frame, a []value) value {
			fr.i.sch.yield("atomic")
			p := a[0].(*value)
			old := *p
			*p = a[1]
			return old
		}
		ext["sync/atomic.CompareAndSwap"+ty] = func(fr *frame, a []value) value {
			fr.i.sch.yield("atomic")
			p := a[0].(*value)
			var eq bool
			if isSym(*p) || isSym(a[1]) {
				fr.curInstr = nil
				eq = fr.i.ex.Branch(fr, fr.i.ex.ctx.Cmp(smt.OEq, fr.i.term(*p), fr.i.term(a[1])), "cas")
			} else {
				eq = rawBits(*p) == rawBits(a[1])
			}
			if eq {
				*p = a[2]
			}
			return eq
		}
	}
	// atomic.Value: struct{ v any }
	ext["(*sync/atomic.Value).Load"] = func(fr *frame, a []value) value {
		fr.i.sch.yield("atomic")
		st := (*a[0].(*value)).(structure)
		return st[0]
	}
	ext["(*sync/atomic.Value).Store"] = func(fr *frame, a []value) value {
		fr.i.sch.yield("atomic")
		st := (*a[0].(*value)).(structure)
		if a[1].(iface).t == nil {
			panic(targetPanic{"sync/atomic: store of nil value into Value"})
		}
		st[0] = a[1]
		return nil
	}

	// ---- time
	ext["time.Now"] = func(fr *frame, a []value) value {
		c := fr.i.ex.ctx
		sec := fr.i.clockNow()
		ext := c.Bin(smt.OAdd, sec, c.BV(62135596800, 64))
		return structure{uint64(0), mkval(ext, types.Int64), (*value)(nil)}
	}
	ext["time.Since"] = func(fr *frame, a []value) value { return int64(0) }
	ext["time.After"] = func(fr *frame, a []value) value { return &chanObj{cap: 1, timer: true} }
	ext["time.Tick"] = func(fr *frame, a []value) value { return &chanObj{cap: 1, timer: true} }
	ext["github.com/netflix/rend/timer.Now"] = func(fr *frame, a []value) value {
		fr.i.env.monoNanos += 1000
		return fr.i.env.monoNanos
	}

	// ---- randomness
	ext["crypto/rand.Read"] = func(fr *frame, a []value) value {
		b := a[0].([]value)
		e := fr.i.env
		e.randCalls++
		c := fr.i.ex.ctx
		for j := range b {
			b[j] = fr.i.ex.newEnvVar(fmt.Sprintf("rand%d[%d]", e.randCalls, j), types.Uint8)
		}
		if e.randDistinct {
			// A2: results of crypto/rand.Read are pairwise distinct
			for _, prev := range e.randBufs {
				if len(prev) == len(b) {
					fr.i.ex.Assume(c.Not(fr.i.bytesEqTerm(prev, b)))
				}
			}
			e.randBufs = append(e.randBufs, append([]value(nil), b...))
		}
		return tuple{len(b), iface{}}
	}
	ext["math/rand.Intn"] = func(fr *frame, a []value) value {
		n := asInt64(a[0])
		if n <= 0 {
			panic(targetPanic{"invalid argument to Intn"})
		}
		if n == 1 {
			return 0
		}
		fr.i.env.randCalls++
		v := fr.i.ex.newEnvVar(fmt.Sprintf("intn%d", fr.i.env.randCalls), types.Int).(*sym)
		c := fr.i.ex.ctx
		fr.i.ex.Assume(c.Cmp(smt.OUlt, v.t, c.BV(uint64(n), 64)))
		return v
	}
	ext["math/rand.Uint32"] = func(fr *frame, a []value) value {
		fr.i.env.randCalls++
		return fr.i.ex.newEnvVar(fmt.Sprintf("rand32_%d", fr.i.env.randCalls), types.Uint32)
	}
	ext["math/rand.Int31"] = func(fr *frame, a []value) value {
		fr.i.env.randCalls++
		v := fr.i.ex.newEnvVar(fmt.Sprintf("rand31_%d", fr.i.env.randCalls), types.Int32).(*sym)
		c := fr.i.ex.ctx
		fr.i.ex.Assume(c.Cmp(smt.OSle, c.BV(0, 32), v.t))
		return v
	}
	ext["math/rand.Int63"] = func(fr *frame, a []value) value {
		fr.i.env.randCalls++
		v := fr.i.ex.newEnvVar(fmt.Sprintf("rand63_%d", fr.i.env.randCalls), types.Int64).(*sym)
		c := fr.i.ex.ctx
		fr.i.ex.Assume(c.Cmp(smt.OSle, c.BV(0, 64), v.t))
		return v
	}
	ext["math/rand.Seed"] = func(fr *frame, a []value) value { return nil }
	// *rand.Rand objects: an opaque handle; Intn is an environment choice (which pooled
	// connection), Int31 one of a few representative bases incl. the largest
	ext["math/rand.NewSource"] = func(fr *frame, a []value) value { return iface{} }
	ext["math/rand.New"] = func(fr *frame, a []value) value { var cell value = structure{}; return &cell }
	ext["(*math/rand.Rand).Intn"] = func(fr *frame, a []value) value {
		n := int(asInt64(a[1]))
		if n <= 0 {
			panic(targetPanic{"invalid argument to Intn"})
		}
		if n == 1 {
			return 0
		}
		if n > 8 {
			return 0 // jitter for back-off delays: time is not modelled, the value is irrelevant
		}
		return fr.i.ex.Choice(n, "randintn")
	}
	ext["(*math/rand.Rand).Int31"] = func(fr *frame, a []value) value {
		// a fixed rotation of representative bases (no fork: nothing but distinctness of the
		// tokens inside one batch depends on the value)
		vals := []int32{0x7ffffff0, 7, 0, 0x7fffffff}
		fr.i.env.randCalls++
		return vals[fr.i.env.randCalls%len(vals)]
	}

	// ---- md5 (native on concrete input)
	ext["crypto/md5.Sum"] = func(fr *frame, a []value) value {
		cells := forceBytes(a[0].([]value))
		b := make([]byte, len(cells))
		for j, c := range cells {
			bb, ok := c.(byte)
			if !ok {
				// symbolic input: MD5 as an uninterpreted function (A3) -- sixteen fresh symbolic
				// bytes, the same ones for the same input terms on this path
				sig := ""
				for _, c := range cells {
					if sb, ok := c.(byte); ok {
						sig += fmt.Sprintf("c%d,", sb)
					} else {
						sig += fmt.Sprintf("t%d,", fr.i.term(c).ID)
					}
				}
				if fr.i.env.md5uf == nil {
					fr.i.env.md5uf = map[string]array{}
				}
				if out, ok := fr.i.env.md5uf[sig]; ok {
					return append(array(nil), out...)
				}
				out := make(array, 16)
				n := len(fr.i.env.md5uf)
				for j := range out {
					out[j] = fr.i.ex.newEnvVar(fmt.Sprintf("md5_%d.%d", n, j), types.Uint8)
				}
				fr.i.env.md5uf[sig] = out
				u := ufApp{real: func(b []byte) []byte { s := md5.Sum(b); return s[:] }}
				for _, c := range cells {
					u.in = append(u.in, fr.i.term(c))
				}
				for _, o := range out {
					u.out = append(u.out, fr.i.term(o))
				}
				fr.i.ex.ufs = append(fr.i.ex.ufs, u)
				return append(array(nil), out...)
			}
			b[j] = bb
		}
		sum := md5.Sum(b)
		out := make(array, 16)
		for j := range out {
			out[j] = sum[j]
		}
		return out
	}

	// ---- fmt
	ext["fmt.Sprintf"] = func(fr *frame, a []value) value { return fr.i.sprintf(fr, a[0], a[1].([]value)) }
	ext["fmt.Sprint"] = func(fr *frame, a []value) value { return fr.i.sprint(fr, a[0].([]value), false) }
	ext["fmt.Sprintln"] = func(fr *frame, a []value) value { return fr.i.sprint(fr, a[0].([]value), true) }
	ext["fmt.Errorf"] = func(fr *frame, a []value) value {
		s := fr.i.sprintf(fr, a[0], a[1].([]value))
		return fr.i.newError(fr, s)
	}
	ext["fmt.Printf"] = func(fr *frame, a []value) value { return tuple{0, iface{}} }
	ext["fmt.Println"] = func(fr *frame, a []value) value { return tuple{0, iface{}} }
	ext["fmt.Print"] = func(fr *frame, a []value) value { return tuple{0, iface{}} }
	ext["fmt.Fprintf"] = func(fr *frame, a []value) value {
		s := fr.i.sprintf(fr, a[1], a[2].([]value))
		return fr.i.writeTo(fr, a[0].(iface), s)
	}
	ext["fmt.Fprint"] = func(fr *frame, a []value) value {
		return fr.i.writeTo(fr, a[0].(iface), fr.i.sprint(fr, a[1].([]value), false))
	}
	ext["fmt.Fprintln"] = func(fr *frame, a []value) value {
		return fr.i.writeTo(fr, a[0].(iface), fr.i.sprint(fr, a[1].([]value), true))
	}
	ext["errors.Is"] = func(fr *frame, a []value) value {
		x, y := a[0].(iface), a[1].(iface)
		if x.t == nil || y.t == nil {
			return x.t == nil && y.t == nil
		}
		if !types.Identical(x.t, y.t) {
			return false
		}
		return equals(x.t, x.v, y.v)
	}
}

func (ex *explorer) newEnvVar(name string, k types.BasicKind) value {
	if ex.template {
		panic(engineError{"environment value during package init"})
	}
	w, _, _, _ := kindInfo(k)
	t := ex.ctx.Var("env."+name, smt.SBV, w)
	return &sym{t: t, k: k}
}

func (i *interpreter) wgOf(p *value) *wgObj {
	w := i.wgs[p]
	if w == nil {
		w = &wgObj{}
		i.wgs[p] = w
	}
	return w
}

func (i *interpreter) poolOf(p *value) *poolObj {
	po := i.pools[p]
	if po == nil {
		po = &poolObj{released: map[*value]bool{}}
		i.pools[p] = po
	}
	return po
}

// poolRelease / poolReuse implement "havoc on reuse" (A4): scalar fields of a recycled object
// are replaced by fresh symbols so that any dependence on stale pool contents shows.
// Release also havocs (another goroutine may take the object out of the pool and overwrite it
// at once, so whoever still reads through a stale pointer sees arbitrary contents), and putting
// an object that is already in the pool is reported: two later Gets would hand the same object
// to two users.
func (i *interpreter) poolRelease(fr *frame, po *poolObj, v value) {
	if itf, ok := v.(iface); ok {
		if pv, ok := itf.v.(*value); ok && pv != nil {
			for _, o := range po.items[:len(po.items)-1] {
				if oi, ok := o.(iface); ok {
					if op, ok := oi.v.(*value); ok && op == pv {
						i.ex.fail("structural", "c14-pool-object-put-twice", "an object was returned to its sync.Pool while already in it (two users will be handed the same object) in "+fr.caller.fn.String(), i.ex.modelOrNil())
					}
				}
			}
		}
	}
	i.poolReuse(fr, po, v)
}

func (i *interpreter) poolReuse(fr *frame, po *poolObj, v value) {
	if !i.ex.poolHavoc {
		return
	}
	itf, ok := v.(iface)
	if !ok {
		return
	}
	i.env.randCalls++
	n := 0
	var havoc func(p *value)
	havoc = func(p *value) {
		switch x := (*p).(type) {
		case structure:
			for j := range x {
				havoc(&x[j])
			}
		case array:
			for j := range x {
				havoc(&x[j])
			}
		default:
			if k := valueKind(x); k != types.Invalid && k != types.Float64 {
				n++
				*p = i.ex.newEnvVar(fmt.Sprintf("pool%d.%d", i.env.randCalls, n), k)
			}
		}
	}
	switch x := itf.v.(type) {
	case *value:
		if x != nil {
			havoc(x)
		}
	case []value:
		for j := range x[:cap(x)] {
			havoc(&x[:cap(x)][j])
		}
	}
}

func (i *interpreter) clockNow() *smt.Term {
	e := i.env
	c := i.ex.ctx
	if e.clock == nil {
		e.clock = c.BV(defaultClock, 64)
		if !e.clockSet {
			e.clockFrozen = true
		}
	}
	if !e.clockFrozen {
		e.nowCalls++
		dt := i.ex.newEnvVar(fmt.Sprintf("dt%d", e.nowCalls), types.Uint64).(*sym)
		i.ex.Assume(c.Cmp(smt.OUlt, dt.t, c.BV(1<<20, 64)))
		e.clock = c.Bin(smt.OAdd, e.clock, dt.t)
	}
	return e.clock
}

// newError builds an error value like errors.New.
func (i *interpreter) newError(fr *frame, s value) value {
	errorsPkg := i.prog.ImportedPackage("errors")
	if errorsPkg == nil {
		panic(engineError{"package errors not loaded"})
	}
	return call(i, fr, 0, errorsPkg.Func("New"), []value{s})
}

// writeTo calls w.Write([]byte(s)).
func (i *interpreter) writeTo(fr *frame, w iface, s value) value {
	if w.t == nil {
		panic("method invoked on nil interface")
	}
	var m *types.Func
	ms := i.prog.MethodSets.MethodSet(w.t)
	for j := 0; j < ms.Len(); j++ {
		if ms.At(j).Obj().Name() == "Write" {
			m = ms.At(j).Obj().(*types.Func)
		}
	}
	if m == nil {
		panic(engineError{"writeTo: no Write method on " + w.t.String()})
	}
	f := i.prog.LookupMethod(w.t, m.Pkg(), "Write")
	return call(i, fr, 0, f, []value{w.v, strCells(s)})
}

// ---- formatting (the verbs the repository uses)

func (i *interpreter) sprint(fr *frame, args []value, ln bool) value {
	var cells []value
	for j, a := range args {
		if j > 0 && ln {
			cells = append(cells, byte(' '))
		}
		cells = append(cells, i.fmtArg(fr, 'v', "", a)...)
	}
	if ln {
		cells = append(cells, byte('\n'))
	}
	return mkstr(cells)
}

func (i *interpreter) sprintf(fr *frame, formatV value, args []value) value {
	// The format may contain symbolic bytes (a format string assembled from client input):
	// whether such a byte is '%' is decided by a branch; a symbolic byte in the position of a
	// flag or verb is supported where no operand depends on it.
	var fcells []value
	switch f := formatV.(type) {
	case string:
		fcells = strCells(f)
	case symstr:
		fcells = []value(f)
	default:
		panic(engineError{fmt.Sprintf("format of type %T", formatV)})
	}
	c := i.ex.ctx
	is := func(v value, ch byte) bool {
		if b, ok := v.(byte); ok {
			return b == ch
		}
		return i.ex.Branch(fr, c.Cmp(smt.OEq, i.term(v), c.BV(uint64(ch), 8)), "fmtchar")
	}
	isFlag := func(v value) bool {
		if b, ok := v.(byte); ok {
			return strings.IndexByte("+-# 0123456789.", b) >= 0
		}
		for _, ch := range []byte("+-# 0123456789.") {
			if is(v, ch) {
				panic(engineError{"symbolic flag character in a format string"})
			}
		}
		return false
	}
	var out []value
	lit := func(s string) {
		for j := 0; j < len(s); j++ {
			out = append(out, s[j])
		}
	}
	argi := 0
	for p := 0; p < len(fcells); p++ {
		ch := fcells[p]
		if !is(ch, '%') {
			out = append(out, ch)
			continue
		}
		q := p + 1
		for q < len(fcells) && isFlag(fcells[q]) {
			q++
		}
		if q >= len(fcells) {
			lit("%!(NOVERB)")
			break
		}
		verbV := fcells[q]
		flags := ""
		for _, fc := range fcells[p+1 : q] {
			flags += string(fc.(byte))
		}
		p = q
		if is(verbV, '%') {
			out = append(out, byte('%'))
			continue
		}
		if argi >= len(args) {
			lit("%!")
			out = append(out, verbV)
			lit("(MISSING)")
			continue
		}
		verb, ok := verbV.(byte)
		if !ok {
			panic(engineError{"symbolic verb with an operand in a format string"})
		}
		out = append(out, i.fmtArg(fr, verb, flags, args[argi])...)
		argi++
	}
	return mkstr(out)
}

// fmtArg renders one operand.
func (i *interpreter) fmtArg(fr *frame, verb byte, flags string, a value) []value {
	itf, ok := a.(iface)
	if !ok {
		itf = iface{t: nil, v: a}
	}
	v := itf.v
	if itf.t == nil && ok {
		return strCells("<nil>")
	}
	// error / Stringer
	if itf.t != nil && (verb == 'v' || verb == 's') {
		ms := i.prog.MethodSets.MethodSet(itf.t)
		for _, name := range []string{"Error", "String"} {
			for j := 0; j < ms.Len(); j++ {
				if f, ok := ms.At(j).Obj().(*types.Func); ok && f.Name() == name {
					sig := f.Type().(*types.Signature)
					if sig.Params().Len() == 0 && sig.Results().Len() == 1 {
						if b, ok := sig.Results().At(0).Type().(*types.Basic); ok && b.Kind() == types.String {
							fn := i.prog.LookupMethod(itf.t, f.Pkg(), name)
							if p, isPtr := v.(*value); isPtr && p == nil {
								return strCells("<nil>")
							}
							return strCells(call(i, fr, 0, fn, []value{v}))
						}
					}
				}
			}
		}
	}
	switch x := v.(type) {
	case *sym:
		_, signed, _, _ := kindInfo(x.k)
		if x.k == types.Bool {
			if i.ex.Branch(fr, x.t, "fmtbool") {
				return strCells("true")
			}
			return strCells("false")
		}
		if verb == 'd' || verb == 'v' {
			if flags != "" {
				panic(engineError{"fmt: flags on symbolic %d"})
			}
			return i.decimalCells(fr, x, signed)
		}
		panic(engineError{"fmt: verb %" + string(verb) + " on a symbolic value"})
	case symstr:
		return []value(x)
	case string:
		return strCells(goFmt(verb, flags, x))
	case []value:
		if isByteCells(x) {
			if verb == 's' {
				return append([]value(nil), x...)
			}
			if b, ok := concreteBytes(x); ok {
				return strCells(goFmt(verb, flags, b))
			}
			panic(engineError{"fmt: %" + string(verb) + " of symbolic bytes"})
		}
		return strCells(toString(x))
	case bool, int, int8, int16, int32, int64, uint, uint8, uint16, uint32, uint64, uintptr, float64, float32:
		return strCells(goFmt(verb, flags, x))
	case *value:
		if x == nil {
			return strCells("<nil>")
		}
		return strCells("0xc000000000")
	case structure, array:
		return strCells(toString(x))
	case nil:
		return strCells("<nil>")
	}
	return strCells(toString(v))
}

func goFmt(verb byte, flags string, x interface{}) string {
	return fmt.Sprintf("%"+flags+string(verb), x)
}

func isByteCells(x []value) bool {
	for _, c := range x {
		switch c := c.(type) {
		case byte:
		case *sym:
			if c.k != types.Uint8 {
				return false
			}
		default:
			return false
		}
	}
	return true
}

func concreteBytes(x []value) ([]byte, bool) {
	b := make([]byte, len(x))
	for j, c := range x {
		bb, ok := c.(byte)
		if !ok {
			return nil, false
		}
		b[j] = bb
	}
	return b, true
}

// decimalCells renders a symbolic integer in decimal: the digit count is a fork, the digits
// are udiv/urem terms.
func (i *interpreter) decimalCells(fr *frame, x *sym, signed bool) []value {
	c := i.ex.ctx
	w := x.t.W
	t := x.t
	var out []value
	if signed {
		fr.curInstr = nil
		if i.ex.Branch(fr, c.Cmp(smt.OSlt, t, c.BV(0, w)), "fmtneg") {
			out = append(out, byte('-'))
			t = c.BVNeg(t)
		}
	}
	// number of digits
	maxDigits := len(strconv.FormatUint(^uint64(0)>>(64-uint(w)), 10))
	n := 1
	pow := uint64(10)
	for n < maxDigits {
		fr.curInstr = nil
		if i.ex.Branch(fr, c.Cmp(smt.OUlt, t, c.BV(pow, w)), "fmtdigits") {
			break
		}
		n++
		if n < maxDigits {
			pow *= 10
		}
	}
	digits := make([]value, n)
	div := uint64(1)
	for j := n - 1; j >= 0; j-- {
		d := c.Bin(smt.OURem, c.Bin(smt.OUDiv, t, c.BV(div, w)), c.BV(10, w))
		digits[j] = mkval(c.Bin(smt.OAdd, c.Extract(d, 7, 0), c.BV('0', 8)), types.Uint8)
		div *= 10
	}
	return append(out, digits...)
}

func init() {
	// sync.RWMutex.RLocker: the read side as a sync.Locker
	externals["(*sync.RWMutex).RLocker"] = func(fr *frame, a []value) value {
		sp := fr.i.prog.ImportedPackage("sync")
		t := sp.Type("rlocker")
		if t == nil {
			panic(engineError{"sync.rlocker not found"})
		}
		return iface{t: types.NewPointer(t.Type()), v: a[0]}
	}
	externals["(*sync.rlocker).Lock"] = externals["(*sync.RWMutex).RLock"]
	externals["(*sync.rlocker).Unlock"] = externals["(*sync.RWMutex).RUnlock"]
}

func init() {
	// rt.ChanCap(ch, n): override the capacity of one channel (used to keep an eager producer,
	// e.g. the chunked token generator, from filling a 1000-slot buffer on every path)
	rtExternals["ChanCap"] = func(fr *frame, a []value) value {
		c, ok := a[0].(iface).v.(*chanObj)
		if !ok || c == nil {
			panic(engineError{"rt.ChanCap: not a channel"})
		}
		c.cap = int(asInt64(a[1]))
		return nil
	}
}

func init() {
	// strings.Builder relies on unsafe; model it on its own fields {addr *Builder; buf []byte}.
	bld := func(a []value) structure { return (*a[0].(*value)).(structure) }
	bbuf := func(st structure) []value {
		b, _ := st[1].([]value)
		return b
	}
	externals["internal/stringslite.Clone"] = func(fr *frame, a []value) value { return a[0] }
	externals["strings.Clone"] = externals["internal/stringslite.Clone"]
	externals["(*strings.Builder).Grow"] = func(fr *frame, a []value) value { return nil }
	externals["(*strings.Builder).Len"] = func(fr *frame, a []value) value { return len(bbuf(bld(a))) }
	externals["(*strings.Builder).Cap"] = func(fr *frame, a []value) value { return cap(bbuf(bld(a))) }
	externals["(*strings.Builder).Reset"] = func(fr *frame, a []value) value { bld(a)[1] = []value(nil); return nil }
	externals["(*strings.Builder).String"] = func(fr *frame, a []value) value { return mkstr(bbuf(bld(a))) }
	externals["(*strings.Builder).Write"] = func(fr *frame, a []value) value {
		st := bld(a)
		p := cellsOf(a[1])
		st[1] = append(bbuf(st), p...)
		return tuple{len(p), iface{}}
	}
	externals["(*strings.Builder).WriteString"] = func(fr *frame, a []value) value {
		st := bld(a)
		p := strCells(a[1])
		st[1] = append(bbuf(st), p...)
		return tuple{len(p), iface{}}
	}
	externals["(*strings.Builder).WriteByte"] = func(fr *frame, a []value) value {
		st := bld(a)
		st[1] = append(bbuf(st), a[1])
		return iface{}
	}
	externals["(*strings.Builder).WriteRune"] = func(fr *frame, a []value) value {
		st := bld(a)
		r, ok := a[1].(int32)
		if !ok || r >= 0x80 {
			panic(engineError{"strings.Builder.WriteRune: non-ASCII or symbolic rune"})
		}
		st[1] = append(bbuf(st), byte(r))
		return tuple{1, iface{}}
	}
}

func init() {
	externals["(runtime.errorString).Error"] = func(fr *frame, a []value) value {
		s, _ := a[0].(string)
		return "runtime error: " + s
	}
	externals["(*runtime.TypeAssertionError).Error"] = func(fr *frame, a []value) value { return "interface conversion error" }
}

func init() {
	// rt.Watch(p, mu, id): p is a pointer to a struct, a pointer to a scalar, or a slice; a
	// spawned goroutine may touch that memory only through sync/atomic or while write-holding *mu
	rtExternals["Watch"] = func(fr *frame, a []value) value {
		var mu *value
		if a[1].(iface).t != nil {
			mu, _ = a[1].(iface).v.(*value)
		}
		if fr.i.watches == nil {
			fr.i.watches = map[*value]watch{}
		}
		w := watch{mu: mu, id: a[2].(string)}
		var add func(p *value)
		add = func(p *value) {
			fr.i.watches[p] = w
			switch x := (*p).(type) {
			case structure:
				for j := range x {
					add(&x[j])
				}
			case array:
				for j := range x {
					add(&x[j])
				}
			}
		}
		switch x := a[0].(iface).v.(type) {
		case *value:
			add(x)
		case []value:
			for j := range x {
				add(&x[j])
			}
		default:
			panic(engineError{fmt.Sprintf("rt.Watch: unsupported operand %T", x)})
		}
		return nil
	}
	// rt.Guard(m, mu, id): map m must only be read with *mu held and written with it write-held;
	// with mu == nil the guarding mutex is inferred (lockset discipline, Eraser style): the
	// mutexes held at every access by a spawned goroutine must have a non-empty intersection
	rtExternals["Guard"] = func(fr *frame, a []value) value {
		m, ok := a[0].(iface).v.(*omap)
		if !ok {
			panic(engineError{"rt.Guard: not a map"})
		}
		var mu *value
		if a[1].(iface).t != nil {
			mu, ok = a[1].(iface).v.(*value)
			if !ok {
				panic(engineError{"rt.Guard: second argument must be nil or a pointer to a mutex"})
			}
		}
		if fr.i.guards == nil {
			fr.i.guards = map[*omap]guard{}
		}
		fr.i.guards[m] = guard{mu: mu, id: a[2].(string)}
		return nil
	}
}
