package main

import (
	"fmt"
	"os"
	"path/filepath"
	"strings"

	"golang.org/x/tools/go/packages"
	"golang.org/x/tools/go/ssa"
	"golang.org/x/tools/go/ssa/ssautil"

	"verif/symgo/interp"
)

func repoDir() string {
	if d := os.Getenv("VERIF_REPO"); d != "" {
		return d
	}
	return "/repo"
}

func verifDir() string {
	if d := os.Getenv("VERIF_DIR"); d != "" {
		return d
	}
	exe, err := os.Executable()
	if err == nil {
		d := filepath.Dir(filepath.Dir(exe))
		if _, err := os.Stat(filepath.Join(d, "harness")); err == nil {
			return d
		}
	}
	return "/verif"
}

// overlayFiles maps every file under /verif/harness to its virtual place in the repository.
func overlayFiles() (map[string]string, error) {
	root := filepath.Join(verifDir(), "harness")
	m := map[string]string{}
	err := filepath.Walk(root, func(p string, info os.FileInfo, err error) error {
		if err != nil {
			return err
		}
		if info.IsDir() || !strings.HasSuffix(p, ".go") {
			return nil
		}
		rel, _ := filepath.Rel(root, p)
		m[filepath.Join(repoDir(), rel)] = p
		return nil
	})
	return m, err
}

type loaded struct {
	prog *ssa.Program
	pkgs map[string]*ssa.Package // by pattern
}

// load builds SSA for the given package patterns (relative to the repository root) from the
// repository's current working tree plus the harness overlay.
func load(patterns []string, goarch string) (*loaded, error) {
	ov, err := overlayFiles()
	if err != nil {
		return nil, err
	}
	overlay := map[string][]byte{}
	for virt, real := range ov {
		if strings.HasSuffix(virt, "_test.go") {
			continue
		}
		b, err := os.ReadFile(real)
		if err != nil {
			return nil, err
		}
		overlay[virt] = b
	}
	env := append(os.Environ(), "GOFLAGS=-mod=mod", "GOPROXY=off", "GOSUMDB=off", "GOTOOLCHAIN=local")
	if goarch != "" {
		env = append(env, "GOARCH="+goarch, "CGO_ENABLED=0")
	}
	cfg := &packages.Config{Mode: packages.LoadAllSyntax, Dir: repoDir(), Overlay: overlay, Env: env}
	pkgs, err := packages.Load(cfg, patterns...)
	if err != nil {
		return nil, err
	}
	nerr := 0
	packages.Visit(pkgs, nil, func(p *packages.Package) {
		for _, e := range p.Errors {
			nerr++
			if nerr < 20 {
				fmt.Fprintln(os.Stderr, "load error:", e)
			}
		}
	})
	if nerr > 0 {
		return nil, fmt.Errorf("%d errors while loading %v (harness no longer compiles against the tree?)", nerr, patterns)
	}
	interp.RepoDir = repoDir()
	prog, spkgs := ssautil.AllPackages(pkgs, ssa.InstantiateGenerics)
	prog.Build()
	l := &loaded{prog: prog, pkgs: map[string]*ssa.Package{}}
	byPath := map[string]*ssa.Package{}
	for j, p := range spkgs {
		if p == nil {
			return nil, fmt.Errorf("no SSA package for %s", pkgs[j].PkgPath)
		}
		byPath[pkgs[j].PkgPath] = p
	}
	for _, pat := range patterns {
		path := "github.com/netflix/rend/" + strings.TrimPrefix(pat, "./")
		p := byPath[path]
		if p == nil {
			return nil, fmt.Errorf("pattern %s: package %s not loaded", pat, path)
		}
		l.pkgs[pat] = p
	}
	return l, nil
}
