package main

import (
	"fmt"
	"os"
	"path/filepath"
	"regexp"
	"strings"

	"golang.org/x/tools/go/packages"
	"golang.org/x/tools/go/ssa"
	"golang.org/x/tools/go/ssa/ssautil"

	"verif/symgo/interp"
)

func repoDir() string {
	if d := os.Getenv("VERIF_REPO"); d != "" {
		return d
	}
	return "/repo"
}

// outDir is where evidence and replay files go: /verif, except for self-test runs against a
// scratch tree (VERIF_OUT set together with VERIF_REPO), which must not touch the evidence.
func outDir() string {
	if d := os.Getenv("VERIF_OUT"); d != "" {
		return d
	}
	return verifDir()
}

func verifDir() string {
	if d := os.Getenv("VERIF_DIR"); d != "" {
		return d
	}
	exe, err := os.Executable()
	if err == nil {
		d := filepath.Dir(filepath.Dir(exe))
		if _, err := os.Stat(filepath.Join(d, "harness")); err == nil {
			return d
		}
	}
	return "/verif"
}

// overlayFiles maps every file under /verif/harness to its virtual place in the repository.
func overlayFiles() (map[string]string, error) {
	root := filepath.Join(verifDir(), "harness")
	m := map[string]string{}
	err := filepath.Walk(root, func(p string, info os.FileInfo, err error) error {
		if err != nil {
			return err
		}
		if info.IsDir() || !strings.HasSuffix(p, ".go") {
			return nil
		}
		rel, _ := filepath.Rel(root, p)
		m[filepath.Join(repoDir(), rel)] = p
		return nil
	})
	if err != nil {
		return nil, err
	}
	// derived files: regenerated from the repository's current source on every run
	dd := filepath.Join(outDir(), "replays", ".derived")
	os.MkdirAll(dd, 0755)
	for _, d := range derived {
		b, err := os.ReadFile(filepath.Join(repoDir(), d.src))
		if err != nil {
			continue // the harness that needs it will fail to compile -> inconclusive
		}
		txt := string(b)
		for _, r := range d.repl {
			txt = regexp.MustCompile(r[0]).ReplaceAllString(txt, r[1])
		}
		out := filepath.Join(dd, strings.ReplaceAll(d.virt, "/", "_"))
		// several jobs of one check (and their native builds) call this concurrently: never let a
		// reader see a half-written file
		if old, err := os.ReadFile(out); err != nil || string(old) != txt {
			tmp, err := os.CreateTemp(dd, "tmp")
			if err != nil {
				return nil, err
			}
			tmp.WriteString(txt)
			tmp.Close()
			if err := os.Rename(tmp.Name(), out); err != nil {
				return nil, err
			}
		}
		m[filepath.Join(repoDir(), d.virt)] = out
	}
	return m, nil
}

type derivedFile struct {
	src, virt string
	repl      [][2]string
}

// derived lists source files of the repository that are re-emitted under another name so
// that code excluded by build constraints on this platform can be executed and replayed.
var derived = []derivedFile{
	{src: "metrics/lzcnt.go", virt: "metrics/zz_verif_lzcnt_portable.go", repl: [][2]string{
		{`(?m)^//\s*\+build.*$`, ""}, {`(?m)^//go:build.*$`, ""}, {`func lzcnt\(`, "func zzLzcntPortable("},
	}},
}

type loaded struct {
	prog *ssa.Program
	pkgs map[string]*ssa.Package // by pattern
}

// load builds SSA for the given package patterns (relative to the repository root) from the
// repository's current working tree plus the harness overlay.
func load(patterns []string, goarch string) (*loaded, error) {
	ov, err := overlayFiles()
	if err != nil {
		return nil, err
	}
	overlay := map[string][]byte{}
	for virt, real := range ov {
		if strings.HasSuffix(virt, "_test.go") {
			continue
		}
		b, err := os.ReadFile(real)
		if err != nil {
			return nil, err
		}
		overlay[virt] = b
	}
	env := append(os.Environ(), "GOFLAGS=-mod=mod", "GOPROXY=off", "GOSUMDB=off", "GOTOOLCHAIN=local")
	if goarch != "" {
		env = append(env, "GOARCH="+goarch, "CGO_ENABLED=0")
	}
	cfg := &packages.Config{Mode: packages.LoadAllSyntax, Dir: repoDir(), Overlay: overlay, Env: env}
	pkgs, err := packages.Load(cfg, patterns...)
	if err != nil {
		return nil, err
	}
	nerr := 0
	packages.Visit(pkgs, nil, func(p *packages.Package) {
		for _, e := range p.Errors {
			nerr++
			if nerr < 20 {
				fmt.Fprintln(os.Stderr, "load error:", e)
			}
		}
	})
	if nerr > 0 {
		return nil, fmt.Errorf("%d errors while loading %v (harness no longer compiles against the tree?)", nerr, patterns)
	}
	interp.RepoDir = repoDir()
	prog, spkgs := ssautil.AllPackages(pkgs, ssa.InstantiateGenerics)
	prog.Build()
	l := &loaded{prog: prog, pkgs: map[string]*ssa.Package{}}
	byPath := map[string]*ssa.Package{}
	for j, p := range spkgs {
		if p == nil {
			return nil, fmt.Errorf("no SSA package for %s", pkgs[j].PkgPath)
		}
		byPath[pkgs[j].PkgPath] = p
	}
	for _, pat := range patterns {
		path := "github.com/netflix/rend/" + strings.TrimPrefix(pat, "./")
		p := byPath[path]
		if p == nil {
			return nil, fmt.Errorf("pattern %s: package %s not loaded", pat, path)
		}
		l.pkgs[pat] = p
	}
	return l, nil
}
