package main

import "strconv"

// The registry of property checks: which harnesses decide which property, with which bounds.

var checks = map[string]Check{}

func reg(c Check) { checks[c.ID] = c }

var stdAssumptions = []string{
	"A9: Go standard library interpreted from source below the intrinsics boundary, go/ssa lowering and the Go compiler used for replay are trusted",
	"A13: int/uint/uintptr are 64-bit",
	"solver: Z3 5.1.0 verdicts are trusted (thorough tier cross-checks assertion queries on Z3 4.8.12 and cvc5 1.0.3)",
}

func init() {
	reg(Check{
		ID: "C18", Level: "model_checking",
		Quick: []Job{
			{Pkg: "./metrics", Func: "ZZLzcnt", Name: "lzcnt-asm-vs-spec", Reach: []string{"lzcnt"}, Bounds: "all 2^64 inputs; amd64 assembly translated instruction by instruction"},
			{Pkg: "./metrics", Func: "ZZLzcntPortable", Name: "lzcnt-portable-vs-spec-and-asm", Reach: []string{"lzcnt"}, Bounds: "all 2^64 inputs; portable body re-emitted from metrics/lzcnt.go on every run"},
			{Pkg: "./metrics", Func: "ZZBucketBound", Reach: []string{"bucket"}, Bounds: "all n <= 2^63-1"},
			{Pkg: "./metrics", Func: "ZZBucketMonotone", Reach: []string{"bucket2"}, Bounds: "all n < 2^63-1 (successor form)"},
			{Pkg: "./metrics", Func: "ZZHistSequential", Params: map[string]int64{"m": 2}, Reach: []string{"periods-read"}, Bounds: "fresh unsampled histogram, two reporting periods of 0..2 symbolic observations (0..2^63-1) each, read back through getAllHistograms / getAllBucketHistograms: count, 23 percentiles within [min,max] and among the period's observations, kept, bucket counters; getBucket summarised (decided separately for all inputs)"},
			{Pkg: "./metrics", Func: "ZZHistSequential", Name: "hist-sampled-count", Params: map[string]int64{"m": 9, "sampled": 1}, Reach: []string{"periods-read"}, Bounds: "sampled histogram (every 4th observation kept), two periods of 0..9 observations (concrete values): the reported count is the number of observations (percentiles of sampled histograms are not claimed)"},
			{Pkg: "./metrics", Func: "ZZHistWrap", Reach: []string{"wrapped"}, Bounds: "one observation from a ring holding 32766..32769 kept observations (wrap-around of the 32768-slot ring)"},
			{Pkg: "./metrics", Func: "ZZCounters", Params: map[string]int64{"k": 2}, Sched: true, Race: true, Reach: []string{"counted"}, Bounds: "2 goroutines x 2 symbolic increments (IncCounter / IncCounterBy), every interleaving at atomic operations; counter memory watched for non-atomic access; value read back through getAllCounters"},
			{Pkg: "./metrics", Func: "ZZHistConcurrent", Params: map[string]int64{"m": 2}, Sched: true, Race: true, Reach: []string{"both-periods-read"}, Bounds: "one observer (2 symbolic observations) against the period switch (extractHist), every interleaving at atomic and lock operations: both resulting periods are consistent; histogram state watched for plain access outside the lock"},
		},
		Thorough: []Job{
			{Pkg: "./metrics", Func: "ZZHistSequential", Name: "hist-sequential-3", Params: map[string]int64{"m": 3}, Reach: []string{"periods-read"}, Bounds: "two reporting periods of 0..3 symbolic observations each"},
			{Pkg: "./metrics", Func: "ZZHistConcurrent", Name: "hist-observer-vs-reader-3", Params: map[string]int64{"m": 3}, Sched: true, Race: true, Reach: []string{"both-periods-read"}, Bounds: "one observer making 3 symbolic observations against the period switch, every interleaving at atomic and lock operations"},
			{Pkg: "./metrics", Func: "ZZCounters", Name: "counters-3", Params: map[string]int64{"k": 3}, Sched: true, Race: true, Reach: []string{"counted"}, Bounds: "2 goroutines x 3 symbolic increments"},
		},
		Assumptions: append([]string{"A10: lzcnt_amd64.s translated by a 9-mnemonic Plan-9 subset translator; BSRQ's destination on zero input is an arbitrary value",
			"histograms: unsampled mode only (the only mode rend registers); multisets of at most 2 (quick) / 3 (thorough) observations per period; the float average and the HTTP text rendering are not compared",
			"A5 mutex model; scheduling points at every sync/atomic operation and lock operation; the 2-observer interleaving is outside the bound"}, stdAssumptions...),
	})

	orcaStep := func(only []string, extra map[string]int64, bounds string) Job {
		p := map[string]int64{"nk": 2, "len0": 2, "dlen": 1, "getkeys": 2}
		for k, v := range extra {
			p[k] = v
		}
		return Job{Pkg: "./zz_verif/orcah", Func: "ZZOrcaStep", Params: p, Only: only, Reach: []string{"step-done"}, Bounds: bounds}
	}
	stepBounds := "one command from an arbitrary valid two-tier state; 9 orchestrator configs (L1Only, L1L2, L1L2Batch x bare/Locked single-reader/Locked multi-reader); 9 command kinds; 2 keys; stored values 2 bytes, written values 1 byte, all byte/flag/TTL/opaque/quiet values symbolic (full 32 bit); gets of 1-2 keys incl. duplicates; clock frozen during the command"
	orcaAssumptions := append([]string{
		"A1: clock frozen during one command (the model handlers share one symbolic instant)",
		"model handlers (harness/zz_verif/model) are memcached for the subset used: TTL rule 0/<=30d relative/absolute, expired = absent; GetE reports remaining seconds",
		"initial state: any L1 subset of L2 with equal bytes/flags and L1 deadline <= L2 deadline (representation invariant, re-established by every command = induction over histories)",
		"responder = recording responder (calls, not bytes); intermediate GetEnd(noopEnd=false) calls of the locking wrapper are not compared here (wire level: C08)",
	}, stdAssumptions...)
	replies := func(name string, params map[string]int64, only []string, bounds string) Job {
		return Job{Pkg: "./zz_verif/orcah", Func: "ZZReplies", Name: name, Params: params, Only: only, Reach: []string{"loop-returned", "replies-checked"}, Bounds: bounds}
	}
	reg(Check{ID: "C01", Level: "model_checking", Assumptions: orcaAssumptions,
		Quick: []Job{orcaStep([]string{"c01-"}, nil, stepBounds),
			{Pkg: "./zz_verif/orcah", Func: "ZZFault", Name: "glue-std-handlers", Params: map[string]int64{"nofault": 1}, Only: []string{"c01-"}, Reach: []string{"loop-returned", "read-back"},
				Bounds: "whole stack, fault-free: one binary request as bytes -> real parser -> Loop -> L1Only/L1L2/L1L2Batch -> real std handlers -> binary backend protocol -> in-process memcached models; reply frames and the value read back by a second client are those of the reference map"}},
		Thorough: []Job{
			replies("wire-binary-pipeline2", map[string]int64{"pipeline": 2}, []string{"c08-", "c02-"}, "wire level (see C08): pipeline of 2 binary requests through parser, Loop, 9 orchestrator configurations and the binary responder"),
			replies("wire-text-pipeline2", map[string]int64{"pipeline": 2, "text": 1}, []string{"c08-", "c02-"}, "the same over the text protocol"),
		}})
	deep := map[string]int64{"nk": 3, "len0": 3, "dlen": 2}
	deepBounds := "as quick with 3 keys, stored values 3 bytes, written values 2 bytes"
	reg(Check{ID: "C02", Level: "model_checking", Assumptions: orcaAssumptions,
		Quick:    []Job{orcaStep([]string{"c02-"}, nil, stepBounds)},
		Thorough: []Job{func() Job { j := orcaStep([]string{"c02-"}, deep, deepBounds); j.Name = "ZZOrcaStep-3keys"; return j }()}})
	c09chunk := func(name string, ls int64) Job {
		return Job{Pkg: "./handlers/memcached/chunked", Func: "ZZChunkedStep", Setup: "ZZSetup", Name: name, Params: map[string]int64{"lenset": ls}, Only: []string{"c09-"}, Reach: []string{"step-done"},
			Bounds: "real chunked.Handler over the memcached model, one command with a full 32-bit symbolic TTL: afterwards the metadata entry and every chunk carry the deadline the reference map computes, and the Exptime field inside the metadata equals it"}
	}
	reg(Check{ID: "C09", Level: "model_checking", Assumptions: append(append([]string{}, orcaAssumptions...), "chunked handler jobs: in-process memcached model (A6), pre-state one complete value per key, clock frozen during the command"),
		Quick: []Job{orcaStep([]string{"c09-"}, nil, stepBounds), c09chunk("chunked-small", 0), c09chunk("chunked-border", 1)},
		Thorough: []Job{func() Job { j := orcaStep([]string{"c09-"}, deep, deepBounds); j.Name = "ZZOrcaStep-3keys"; return j }(), c09chunk("chunked-two-chunks", 2), c09chunk("chunked-three-chunks", 3),
			{Pkg: "./handlers/memcached/batched", Func: "ZZBatchedStep", Name: "batched-gete-ttl", Only: []string{"c06-same-data"}, Reach: []string{"step-done"}, Bounds: "gete through the batching pool reports the same remaining TTL as a direct connection (see C06)"}}})

	c08only := []string{"c08-"}
	rb8 := "pipeline of 2 requests as bytes through the real parser, DefaultServer.Loop, orca (9 configurations), real responder; first request: every supported kind (binary: 23 incl. quiet variants, quiet-get batches closed by get/no-op, gete, gat, version, quit; text: 15 incl. 1-3 key gets, unknown command, bad numeric field), second: 2-key get / set / delete; arbitrary valid two-tier start state over 2 keys; values, flags, TTLs, opaques symbolic"
	reg(Check{ID: "C08", Level: "model_checking", Assumptions: append([]string{
		"replies are decoded by independent strict decoders (harness/zz_verif/wire/strictdec.go): complete frames only, whole capture consumed",
		"order of the value frames inside one get is free, the terminator must be last; error class compared (not-found / exists), not the exact code; stats excluded (multi-packet by protocol)",
		"text: stored flags <= 9 in the quick tier (one rendering shape per VALUE line); gete exists on the single-tier orchestrator only (elsewhere: one unknown-command reply)",
		"model handlers stand for the backends; the client closes after its last request (EOF)",
	}, orcaAssumptions...),
		Quick: []Job{
			replies("binary-pipeline2", map[string]int64{"pipeline": 2}, c08only, rb8),
			replies("text-pipeline2", map[string]int64{"pipeline": 2, "text": 1}, c08only, rb8),
			replies("binary-get-after-failed-multiget", map[string]int64{"pipeline": 2, "getfault": 1}, c08only, "a 2-key quiet-get batch during which backend call 0 or 1 on L1 fails with ERROR Busy (error reply, connection kept), then a single-key get: it is answered in full, terminator included; 9 orchestrator configurations"),
			replies("text-get-after-failed-multiget", map[string]int64{"pipeline": 2, "getfault": 1, "text": 1}, c08only, "the same over the text protocol with gets of 2-3 keys followed by a 1-key get"),
			replies("text-get-arbitrary-key-byte", map[string]int64{"pipeline": 1, "text": 1, "symkey": 1, "orca": 0, "kind1": 6}, c08only, "a text get of two keys on the single-tier orchestrator where one client key is a single arbitrary printable byte (every byte 0x21..0x7e, e.g. a formatting directive character): the VALUE lines name the requested keys"),
		},
		Thorough: []Job{
			replies("binary-3keys-2bytes", map[string]int64{"pipeline": 1, "nk": 3, "dlen": 2, "len0": 3}, c08only, "single binary request with 3 keys, stored values 3 bytes, written values 2 bytes"),
			replies("text-any-command-arbitrary-key-byte", map[string]int64{"pipeline": 1, "text": 1, "symkey": 1, "norca": 2}, c08only, "any single text command on the single-tier and the two-tier orchestrator where one client key is a single arbitrary printable byte"),
			replies("text-flags-2digits", map[string]int64{"pipeline": 1, "text": 1, "maxflags": 99, "digits": 2}, c08only, "single text request, stored flags up to 99 (1-2 digit renderings), 2-digit numeric request fields (longer decimal renderings compared against a decimal parse are multiply/divide chains the solvers do not finish)"),
		}})

	conc3 := func(name string, params map[string]int64, bounds string) Job {
		return Job{Pkg: "./zz_verif/orcah", Func: "ZZLockedConcurrent", Name: name, Params: params, Sched: true, SchedKinds: "rt,lock,unlock", SchedSkipPkgs: "github.com/netflix/rend/metrics",
			NoReplay: true, Note: "schedule-dependent: the native run cannot be forced into the explored interleaving (counterexamples are reported with the schedule trace)",
			Reach: []string{"both-done"}, Bounds: bounds}
	}
	c3b := "two connections x one command each (all 81 ordered pairs of set add replace append prepend delete touch gat get), connection B on the main port (Locked(L1L2)) or on the batch port (LockedWithExisting(L1L2Batch), same lock set), single- and multi-reader locks; shared L1/L2 model stores in an arbitrary valid state; every interleaving at key-lock operations and backend calls; values, flags, TTLs symbolic; "
	c3t := []Job{}
	for _, k := range []int64{0, 5, 7} { // set, delete, gat
		c3t = append(c3t, conc3("two-keys-two-stripes-a"+itoa(k), map[string]int64{"nk": 2, "concurrency": 1, "a.cmd": k}, c3b+"2 keys, 2 lock stripes (same and different stripes), first connection's command fixed per job"))
	}
	// a get as the first connection's command against all nine commands on two keys exceeds the path budget since the
	// schedule reduction keeps writers queueing behind readers; get is still the second connection's command in the
	// three jobs above and both connections' command in the one-key job
	c3t = append(c3t, conc3("multi-get-vs-set-one-stripe", map[string]int64{"nk": 2, "concurrency": 0, "multireader": 0, "getkeys": 2, "a.cmd": 8, "a.nkeys": 1, "a.getkey0": 0, "a.getkey1": 1, "a.getquiet": 0, "b.key": 1, "b.cmd": 0}, c3b+"A: get of keys 0 and 1, B: set of key 1; one lock stripe, single-reader locks; per-key linearization"))
	reg(Check{ID: "C03", Level: "model_checking", Assumptions: append([]string{
		"A5: engine mutex model, any waiter may win; scheduling points: key-lock acquire/release and every backend (model handler) call; lock/atomic operations inside package metrics and the channel operations on each connection's private reply channels are not scheduling points (independent of the observed state)",
		"schedule reduction: a goroutine that has just been preempted to takes its next visible operation before it can be preempted again, and a preemption to a goroutine that immediately blocks on a held mutex is dropped (equivalent to not preempting there); deadlocks are still reached because forced switches are never dropped",
		"linearizability oracle: both reply logs and the final L2 state equal those of one of the two sequential orders on the reference map (real-time order is vacuous for two overlapping single commands)",
		"bounds: 2 connections x 1 command; more connections, longer programs and the random-schedule clause of the property are outside the claim",
	}, orcaAssumptions...),
		Quick: []Job{
			conc3("one-key", map[string]int64{"nk": 1, "concurrency": 0}, c3b+"1 key, 1 lock stripe"),
			{Pkg: "./zz_verif/orcah", Func: "ZZLockWiring", Reach: []string{"wired"}, Bounds: "Locked / LockedWithExisting with concurrency 0..2, single/multi reader: the orcas of both ports hold the same locker objects; stripe index a function of the key bytes (keys of 1..3 symbolic bytes); every key of a 3-key get is locked on the stripe of that key alone"},
		},
		Thorough: c3t})

	fb := "one binary client request (set add replace append prepend delete touch gat get quiet-get+noop) as bytes through the real parser, DefaultServer.Loop, orca, real std handlers and the binary backend protocol onto in-process memcached models for L1 and L2; one backend request (index 0..2 on L1 or on L2) answered with one of 10 error statuses, or the backend connection closed before / after / inside (byte 1..30) that reply; then a second client on fresh connections reads the key back; arbitrary valid two-tier start state, 1 key, values 2 bytes; "
	reg(Check{ID: "C10", Level: "model_checking", Assumptions: append([]string{
		"A6: backends are the in-process memcached model; a read with no reply pending is recorded (it would block for ever on a socket) instead of blocking",
		"faults: exactly one per run; a status that is a normal answer for the faulted backend command (not-found to replace/delete/touch/get, not-stored or not-found to append/prepend, exists to add) is a backend lying about its contents, not an error status: the no-stale-value-after-ack assertion is not applied to it",
		"value oracle: what the second client reads is the pre-command value, the post-command value or a miss; after an acknowledged write/delete only the post-command value or a miss",
		"promptness = the loop returns within the step budget with no read that would wait for ever; wall-clock behaviour is outside the claim; faults in the batching pool belong to C13",
	}, orcaAssumptions...),
		Quick: []Job{{Pkg: "./zz_verif/orcah", Func: "ZZFault", Only: []string{"c10-"}, Reach: []string{"loop-returned", "fault-delivered", "read-back"}, Bounds: fb + "orchestrators L1Only, L1L2, L1L2Batch"},
			{Pkg: "./zz_verif/orcah", Func: "ZZFault", Name: "fault-then-read-on-same-connection", Params: map[string]int64{"followup": 1, "nk": 2, "norca": 2, "faultpositions": 2}, Only: []string{"c10-"}, Reach: []string{"loop-returned", "fault-delivered", "followup-checked"},
				Bounds: "as ZZFault with 2 keys; orchestrators L1Only and L1L2; first request a 2-key quiet-get batch (closed by get or no-op) or a set, with the fault on backend request 0 or 1, then a get of either key on the same client connection: it is unanswered, answered not-found/error, or answered with that key's own value -- never another key's"},
			{Pkg: "./handlers/memcached/chunked", Func: "ZZChunkedFault", Setup: "ZZSetup", Only: []string{"c10-"}, Reach: []string{"call-returned", "fault-delivered"},
				Bounds: "real chunked handler over the memcached model holding a value of 1-3 chunks; get / get-and-touch / delete / touch / set (2 chunks) with one backend request of the exchange (index 0..n+2) answered with one of 10 error statuses or the connection closed before / after / inside (byte 1..30) the reply: the call returns, never reads a dead connection again and again, never waits for a reply that cannot come; values returned are the stored value or a miss; afterwards the connection is either in sync (next set+get answered correctly) or given up with a non-application error"}},
		Thorough: []Job{{Pkg: "./zz_verif/orcah", Func: "ZZFault", Name: "ZZFault-locked-2keys", Params: map[string]int64{"norca": 9, "faultpositions": 4}, Only: []string{"c10-"}, Reach: []string{"loop-returned", "fault-delivered", "read-back"}, Bounds: fb + "all 9 orchestrator configurations incl. the locking wrappers, fault index 0..3"}}})

	reg(Check{ID: "C12", Level: "model_checking", Assumptions: append([]string{
		"lock discipline observed through instrumented lockers injected into the lock-set slot by an overlay file in package orcas (no change to the repository)",
		"faults: the n-th call on the L1 or L2 model handler returns an I/O error, returns ERROR Busy, or panics; one fault per command",
		"sequential part only: concurrent multi-key gets in opposite orders are covered by C03's schedule exploration",
	}, orcaAssumptions...),
		Quick: []Job{{Pkg: "./zz_verif/orcah", Func: "ZZLockFault", Params: map[string]int64{"concurrency": 1, "getkeys": 2, "failpositions": 3},
			Reach:  []string{"loop-returned", "second-parse", "next-commands-done"},
			Bounds: "Locked(L1Only|L1L2|L1L2Batch), single/multi reader, 2 stripes; 9 command kinds, gets of 1-2 keys; fault at handler call 0 or 1 of L1 or L2, or at responder call 0 or 1 (write error / panic while replying), or none; kinds I/O error / app error / panic"},
			{Pkg: "./zz_verif/orcah", Func: "ZZLockWiring", Name: "three-key-get-lock-log", Reach: []string{"wired"}, Bounds: "a 3-key get over 1-4 stripes through instrumented lockers: never two key locks at once (see C03)"}},
		Thorough: []Job{{Pkg: "./zz_verif/orcah", Func: "ZZLockFault", Params: map[string]int64{"getkeys": 3, "failpositions": 5}, Name: "ZZLockFault-deep",
			Reach:  []string{"loop-returned", "second-parse", "next-commands-done"},
			Bounds: "as quick, plus 1 and 2 stripes, gets of 1-3 keys, fault at handler call 0..3"}},
	})

	ring := func(n, seed int64, bounds string) Job {
		return Job{Pkg: "./handlers/memcached/cluster", Func: "ZZRing", Setup: "ZZRingSetup", Name: "ring-n" + itoa(n) + "-s" + itoa(seed),
			Params: map[string]int64{"n": n, "seed": seed, "perms": 6}, Reach: []string{"lookup"}, Bounds: bounds}
	}
	rb := "every 32-bit ring location (symbolic), one path per ring interval; node set of the given size with concrete labels; all permutations for n<=4, reversal+rotation+4 seeded shuffles above; every single-node removal"
	reg(Check{ID: "C19", Level: "model_checking", Assumptions: append([]string{
		"A3: md5.Sum executed natively on concrete labels; ring points of the enumerated label set pairwise distinct (asserted)",
		"node label sets are enumerated (sizes and seed below), weights are 1; Hash(key)=Bucket(first 4 bytes of md5(key)) is covered through the ring location being an arbitrary 32-bit value",
	}, stdAssumptions...),
		Quick: []Job{ring(1, 0, rb), ring(2, 0, rb), ring(3, 0, rb), ring(4, 1, rb), ring(8, 2, rb),
			func() Job {
				j := ring(4, 3, rb+"; labels are 36-byte IPv6 host:port strings that agree on their first 35 bytes")
				j.Name, j.Params = "ring-n4-long-labels", map[string]int64{"n": 4, "seed": 3, "perms": 6, "long": 1}
				return j
			}(),
			{Pkg: "./handlers/memcached/cluster", Func: "ZZClusterSetGet", Params: map[string]int64{"n": 3}, Reach: []string{"set-done", "get-done"}, Bounds: "the real cluster Handler over 3 nodes (std handlers onto memcached models): set of a symbolic 2-byte key through one handler, get through a second handler over its own connection objects with the nodes listed in reverse; MD5 uninterpreted (any 32-bit ring location)"},
			{Pkg: "./handlers/memcached/cluster", Func: "ZZClusterSetGet", Name: "set-get-after-other-lookups", Params: map[string]int64{"n": 3, "warm": 1, "keylen": 6}, Reach: []string{"warmed", "set-done", "get-done"}, Bounds: "as ZZClusterSetGet with a 6-byte symbolic key, after the setting connection looked another (concrete) key up (routing does not depend on what a connection did before); MD5 uninterpreted"}},
		Thorough: []Job{
			{Pkg: "./handlers/memcached/cluster", Func: "ZZClusterSetGet", Name: "set-get-after-two-other-lookups", Params: map[string]int64{"n": 4, "warm": 2, "keylen": 6}, Reach: []string{"warmed", "set-done", "get-done"}, Bounds: "4 nodes, 6-byte symbolic keys, two earlier lookups of other (concrete) keys on the setting connection; MD5 uninterpreted"},
			ring(3, 7, rb), ring(5, 3, rb), ring(16, 4, rb), ring(25, 3, rb), ring(30, 6, rb), ring(32, 5, rb)}})

	ck := func(fn string, params map[string]int64, reach, bounds string, qt int) Job {
		name := fn
		if kl, ok := params["keylen"]; ok {
			name += "-k" + itoa(kl)
		}
		return Job{Pkg: "./handlers/memcached/chunked", Func: fn, Setup: "ZZSetup", Name: name, Params: params, Reach: []string{reach}, Bounds: bounds, QTimeout: qt}
	}
	kl := func(n int64) map[string]int64 { return map[string]int64{"keylen": n} }
	c16q := []Job{
		ck("ZZChunkSize", nil, "chunksize", "all key lengths 1..250 (symbolic)", 0),
		ck("ZZSliceIndices", nil, "indices", "chunk size 1..1112, chunk number 0..999, value length up to 999 chunks, all symbolic", 0),
		ck("ZZReaderStep", nil, "read", "one Read from any state satisfying the iterator invariant; buffer length 0..8; underlying reader returns any count", 0),
		ck("ZZChunkKeyLen", kl(5), "chunkkey", "chunk index 0..999 symbolic, key length 5", 0),
		ck("ZZChunkKeyLen", kl(250), "chunkkey", "chunk index 0..999 symbolic, key length 250", 0),
	}
	for _, k := range []int64{1, 100, 250} {
		c16q = append(c16q, ck("ZZNumChunks", kl(k), "numchunks", "value length 0..999*payload symbolic, key length fixed (FP divisor constant)", 240000))
	}
	c16q = append(c16q, ck("ZZSetMetadata", kl(5), "first-request", "real Handler.Set on a value of symbolic length 0..999*payload (abstract-length bytes), path ended after the metadata request", 240000))
	var c16t []Job
	for _, k := range []int64{2, 16, 50, 150, 200, 249} {
		c16t = append(c16t, ck("ZZNumChunks", kl(k), "numchunks", "value length 0..999*payload symbolic, key length fixed", 600000))
	}
	for _, k := range []int64{1, 250} {
		c16t = append(c16t, ck("ZZSetMetadata", kl(k), "first-request", "real Handler.Set on a value of symbolic length", 600000))
	}
	chunkedAssumptions := append([]string{
		"A6: the backend is the in-process memcached model (harness/zz_verif/model/fakemc.go): binary protocol subset the handlers use, quiet-get misses are silent, TTL rule 0/<=30d relative/absolute, expired = absent",
		"A1: clock frozen during one command; A2: tokens drawn from crypto/rand are pairwise distinct and differ from the tokens already stored",
		"pre-state: per key absent, or one complete value (metadata + all chunks, same token and deadline, metadata.Exptime = that deadline) -- the representation invariant every command re-establishes; surplus chunks of an older longer value are not generated (see the known finding on shrink+delete)",
		"long values are symbolic at byte 0, at the last byte and on both sides of every chunk border, and a fixed position-dependent pattern elsewhere; values up to 8 bytes are fully symbolic; flags, TTL (full 32 bit), opaque, tokens, deadlines symbolic",
		"request keys carry spare capacity 0, 5 or 8 (the parsers produce keys with spare capacity)",
	}, stdAssumptions...)
	cstep := func(name string, params map[string]int64, only []string, bounds string) Job {
		return Job{Pkg: "./handlers/memcached/chunked", Func: "ZZChunkedStep", Setup: "ZZSetup", Name: name, Params: params, Only: only, Reach: []string{"step-done"}, Bounds: bounds}
	}
	csb := "real chunked.Handler over the memcached model: one command (set add replace append prepend delete touch gat get) from an arbitrary well-formed backend state; result class, returned bytes/flags, complete backend post-state, set of backend keys touched, entry sizes and deadlines compared with the reference map; "
	reg(Check{ID: "C04", Level: "model_checking", Assumptions: chunkedAssumptions,
		Quick: []Job{
			cstep("step-small", map[string]int64{"lenset": 0}, []string{"c04-"}, csb+"key length 5; stored and written value lengths {0,1,2}"),
			cstep("step-border", map[string]int64{"lenset": 1}, []string{"c04-"}, csb+"key length 5; value lengths {p-1,p,p+1}, p = 1092 payload bytes per chunk"),
			cstep("step-two-chunks", map[string]int64{"lenset": 2}, []string{"c04-"}, csb+"key length 5; value lengths {0,2p,2p+1}"),
			cstep("step-two-keys", map[string]int64{"lenset": 0, "nkeys": 2}, []string{"c04-"}, csb+"two client keys, the one not addressed keeps its entries"),
			{Pkg: "./handlers/memcached/chunked", Func: "ZZKeyInjective", Setup: "ZZSetup", Reach: []string{"derived"}, Bounds: "two distinct client keys of 1..3 arbitrary bytes, suffix kinds metadata / chunk 0,1,10,99,100,999"},
			{Pkg: "./handlers/memcached/chunked", Func: "ZZChunkedShrinkDelete", Setup: "ZZSetup", Reach: []string{"deleted"}, Bounds: "set of 2-3 chunks; set of 0-1 chunks; delete; get"},
		},
		Thorough: []Job{
			cstep("step-keylen1", map[string]int64{"lenset": 3, "keylen": 1}, []string{"c04-"}, csb+"key length 1; value lengths {1,p,3p}"),
			cstep("step-keylen250", map[string]int64{"lenset": 3, "keylen": 250}, []string{"c04-"}, csb+"key length 250; value lengths {1,p,3p}"),
			cstep("step-two-keys-border", map[string]int64{"lenset": 1, "nkeys": 2}, []string{"c04-"}, csb+"two client keys; value lengths {p-1,p,p+1}"),
			cstep("step-four-chunks", map[string]int64{"lenset": 4}, []string{"c04-"}, csb+"key length 5; value lengths {2p-1,3p+1,4p}"),
			cstep("step-five-chunks", map[string]int64{"lenset": 5}, []string{"c04-"}, csb+"key length 5; value lengths {p+1,2p,5p-1}"),
			cstep("step-two-keys-two-chunks", map[string]int64{"lenset": 2, "nkeys": 2}, []string{"c04-"}, csb+"two client keys; value lengths {0,2p,2p+1}"),
		}})
	closs := func(name string, maxn int64, bounds string) Job {
		return Job{Pkg: "./handlers/memcached/chunked", Func: "ZZChunkedLoss", Setup: "ZZSetup", Name: name, Params: map[string]int64{"maxchunks": maxn}, Reach: []string{"read-done"}, Bounds: bounds}
	}
	reg(Check{ID: "C05", Level: "model_checking", Assumptions: append([]string{
		"loss: a complete value of n chunks is stored; every subset of {metadata, chunk 0..n-1} may be gone (2^(n+1) subsets, enumerated as environment choices; bytes, flags, token symbolic)",
		"interleaved writers: the backend state is any per-entry mixture of two complete sets with distinct tokens (A2) and absent entries -- a superset of what interleaving the two writers' backend requests, or reading while they run, can produce",
	}, chunkedAssumptions...),
		Quick: []Job{closs("loss-up-to-3-chunks", 3, "n = 1..3 chunks, last chunk full or 1 byte; readers: get, get-and-touch, append; every lost subset"),
			{Pkg: "./handlers/memcached/chunked", Func: "ZZChunkedMixed", Setup: "ZZSetup", Name: "two-writers-mixed", Params: map[string]int64{"maxchunks": 2}, Reach: []string{"read-done"},
				Bounds: "two sets of one key (1-2 chunks each, last chunk full / one byte short / one byte; values, flags, distinct tokens symbolic); every backend entry independently holds writer 1's version, writer 2's version or nothing (covers every interleaving of the writers' backend requests and a reader running while they are in progress); readers get, get-and-touch, append"},
			cstep("multi-key-get", map[string]int64{"lenset": 0, "nkeys": 2, "cmd": 8, "c05": 1}, []string{"c05-"}, "one get of two keys (values 0-2 bytes, any presence): every response, compared after the whole batch has completed, is the value written for its own key"),
			cstep("multi-key-get-border", map[string]int64{"lenset": 1, "nkeys": 2, "cmd": 8, "c05": 1}, []string{"c05-"}, "the same with value lengths {p-1,p,p+1}"),
		},
		Thorough: []Job{closs("loss-up-to-6-chunks", 6, "n = 1..6 chunks, every lost subset"),
			{Pkg: "./handlers/memcached/chunked", Func: "ZZChunkedMixed", Setup: "ZZSetup", Name: "two-writers-mixed-3chunks", Params: map[string]int64{"maxchunks": 3}, Reach: []string{"read-done"}, Bounds: "as quick with 1-3 chunks per writer"}}})

	reg(Check{ID: "C16", Level: "model_checking", Assumptions: append([]string{
		"chunk count through float64: decided in the SMT floating-point theory per key length (constant divisor); key lengths between the listed ones are outside the claim for the FP detour (the integer kernels cover all 250)",
		"float64(int) conversions proven exact (|x| <= 2^53) by a solver query are carried as integers (min/compare/convert back)",
		"reader step: induction over Reads from the iterator invariant; buffer lengths above 8 are outside the bound",
		"composition with the real handler runs (every data Set the backend sees has the full chunk length) is asserted by the C04 handler harness",
	}, stdAssumptions...), Quick: append(append(c16q, cstep("append-to-foreign-layout", map[string]int64{"lenset": 1, "foreign": -9, "cmd": 3}, []string{"c16-", "c04-result", "c04-value", "c04-backend-state"}, csb+"append to an item that was stored with another chunk geometry (payload 9 bytes smaller): what is written back has this handler's entry sizes")), cstep("handler-entry-sizes", map[string]int64{"lenset": 1}, []string{"c16-"}, csb+"every data entry the backend receives has the full chunk size, every metadata entry 40 bytes; value lengths {p-1,p,p+1}")), Thorough: c16t})

	reg(Check{ID: "C15", Level: "model_checking", Assumptions: append([]string{
		"A14: the network is an in-memory fake listener/connection pair; the handler constructors open one connection per call to in-process memcached models (real std handlers on top); net.Dial is not exercised",
		"the request stream is one of four concrete representative pipelines (three text, one binary with symbolic value bytes) cut at every byte offset, then EOF; orchestrators L1Only, L1L2, Locked(L1L2), Locked(L1L2Batch, multi-reader)",
		"'everything released' = at quiescence (no goroutine can run): client socket and both backend connections closed, the number of live goroutines is back to acceptor + harness, the engine's lock table is empty; then a fresh client is accepted and served",
		"half-open TCP connections and slow clients are outside the claim",
	}, stdAssumptions...),
		Quick: []Job{{Pkg: "./zz_verif/orcah", Func: "ZZDisconnect", Reach: []string{"first-client-gone", "second-client-served"}, Bounds: "real server.ListenAndServe + DefaultServer.Loop + parsers + orcas + std handlers; 4 streams x every cut offset (0..len) x 4 orchestrator configurations x key in L1 or not"},
			{Pkg: "./zz_verif/orcah", Func: "ZZLateFirstByte", Name: "overlapping-clients", Reach: []string{"b-served", "a-served"}, Bounds: "two overlapping clients (the first silent until the second has come and gone): each one's departure closes exactly the backend connections opened for it (see C14)"}}})
	reg(Check{ID: "C14", Level: "model_checking", Assumptions: append([]string{
		"claimed part: (a) pool discipline -- an object has arbitrary contents from the moment it is returned to its sync.Pool (havoc on release and on reuse), and putting an object that is already pooled is reported; under that model the whole-stack, wire-level and chunked-handler harnesses still produce the reference replies; (b) one handler instance (own backend connections) per client connection in ListenAndServe, also when a client sends its first byte after a later client was accepted; (c) two connections without lock wrapper on different keys, every interleaving at backend calls: each sees the replies it would see alone",
		"not claimed: data-race freedom in the sense of the Go memory model over real schedules of many connections (the engine has no happens-before model of the runtime); metrics internals (C18)",
		"A4: sync.Pool is LIFO; A5 mutex model",
	}, orcaAssumptions...),
		Quick: []Job{
			{Pkg: "./zz_verif/orcah", Func: "ZZLateFirstByte", Reach: []string{"b-served", "a-served"}, Bounds: "real ListenAndServe, two text clients, the first one silent until the second has come and gone; L1Only and L1L2; values symbolic"},
			{Pkg: "./zz_verif/orcah", Func: "ZZFault", Name: "pool-havoc-whole-stack", Params: map[string]int64{"nofault": 1, "poolhavoc": 1}, Reach: []string{"loop-returned", "read-back"}, Bounds: "whole stack with std handlers (see C01 glue), pooled headers arbitrary after release"},
			replies("pool-havoc-wire", map[string]int64{"pipeline": 1, "poolhavoc": 1}, nil, "wire level (see C08), single binary request, pooled request/response headers arbitrary after release"),
			cstep("pool-havoc-chunked", map[string]int64{"lenset": 1, "poolhavoc": 1}, nil, "real chunked handler step (see C04), pooled headers arbitrary after release"),
			{Pkg: "./zz_verif/orcah", Func: "ZZLockedConcurrent", Name: "disjoint-keys-set", Params: map[string]int64{"nk": 2, "disjoint": 1, "a.cmd": 0}, Sched: true, SchedKinds: "rt,lock,unlock", SchedSkipPkgs: "github.com/netflix/rend/metrics", Reach: []string{"both-done"},
				Bounds: "two connections (L1L2 and L1L2 / L1L2Batch, no lock wrapper) on different keys: A sets key 0, B issues any of the 9 commands on key 1; every interleaving at backend calls"},
		},
		Thorough: func() []Job {
			js := []Job{
				{Pkg: "./zz_verif/orcah", Func: "ZZLockedConcurrent", Name: "disjoint-keys-get", Params: map[string]int64{"nk": 2, "disjoint": 1, "a.cmd": 8}, Sched: true, SchedKinds: "rt,lock,unlock", SchedSkipPkgs: "github.com/netflix/rend/metrics", Reach: []string{"both-done"},
					Bounds: "the same with A getting key 0"},
			}
			for k := int64(1); k < 8; k++ {
				js = append(js, Job{Pkg: "./zz_verif/orcah", Func: "ZZLockedConcurrent", Name: "disjoint-keys-a" + itoa(k), Params: map[string]int64{"nk": 2, "disjoint": 1, "a.cmd": k}, Sched: true, SchedKinds: "rt,lock,unlock", SchedSkipPkgs: "github.com/netflix/rend/metrics", Reach: []string{"both-done"}, Bounds: "disjoint keys, first connection's command fixed per job (add replace append prepend delete touch gat)"})
			}
			return append(js, replies("pool-havoc-wire-text", map[string]int64{"pipeline": 1, "poolhavoc": 1, "text": 1}, nil, "wire level, text protocol, pooled objects arbitrary after release"))
		}()})

	bjob := func(fn, name string, params map[string]int64, reach []string, bounds string) Job {
		return Job{Pkg: "./handlers/memcached/batched", Func: fn, Name: name, Params: params, Reach: reach, Bounds: bounds}
	}
	batchedAssumptions := append([]string{
		"the pool is built from the real conn / relay / Handler types with the real batcher, reader and recoveryMonitor goroutines; the unix socket is replaced by an in-memory connection with socket semantics (a read with nothing pending blocks) onto the in-process memcached model (A6); newConn's dial and the relay's monitor goroutine (pool growth) are not executed",
		"A12: time.After fires when its receiver has nothing else to do; goroutines are scheduled run-until-block (one legal schedule per path; the interleaving of callers is not explored exhaustively); math/rand: connection pick = environment choice, opaque base = fixed rotation of representative values, back-off jitter 0",
		"pool of one connection, batch size 1 and 2; requests of two callers travel in one batch (batch size 2)",
	}, stdAssumptions...)
	reg(Check{ID: "C06", Level: "model_checking", Assumptions: batchedAssumptions,
		Quick: []Job{
			bjob("ZZBatchedStep", "", nil, []string{"step-done"}, "one command (set add replace append prepend delete touch gat get gete; gets of 1-2 keys incl. duplicates, symbolic quiet flags and opaques) through the pool and over a direct std connection from equal arbitrary backend states (2 keys): same outcome, data, flags, remaining TTL, same backend state"),
			bjob("ZZBatchedTwoCallers", "", nil, []string{"both-done"}, "two callers at once, their requests in one batch (A: any command on keys 0-1 incl. 2-key gets, B: any command on key 2): each receives what it would receive alone"),
			bjob("ZZBatchedTwoCallers", "two-callers-finite-socket-buffers", map[string]int64{"sockcap": 0}, []string{"both-done"}, "as ZZBatchedTwoCallers over a backend connection with finite socket buffers, scaled down to nothing: a write completes only once the backend has taken all of it, and the backend stops taking requests while replies are unread (the pool must be reading replies while it writes a batch)"),
			bjob("ZZBatchedHold", "", nil, []string{"held"}, "a value obtained by get / gete / gat is compared with the direct connection's only after two further gets have gone over the same pooled connection"),
		},
		Thorough: []Job{bjob("ZZBatchedStep", "step-3keys-3getkeys", map[string]int64{"nk": 3, "getkeys": 3}, []string{"step-done"}, "as quick with 3 keys and gets of 1-3 keys")}})
	reg(Check{ID: "C13", Level: "model_checking", Assumptions: append([]string{
		"connection loss = the backend closes the pooled connection before / after / inside (5 cut positions) the reply to request 0..2 of the connection; reconnect() dials the (substituted) socket at once; back-off timing, refused reconnects and kernel-level detection of idle cuts are outside the claim",
		"commands: get / gete of 1-3 keys over 2 keys (duplicates, every quiet pattern), set, touch and get-and-touch with relative TTL (the transparent retry is at-least-once by design: non-idempotent commands are outside the bound)",
	}, batchedAssumptions...),
		Quick: []Job{bjob("ZZBatchedConnLoss", "", nil, []string{"call-returned", "connection-was-cut", "pool-serves-again"}, "one caller, pool of one connection, batch size 1: exactly one outcome per call -- an error, or every requested key answered exactly once with its own data after the transparent retry; afterwards the pool serves a further get correctly"),
			bjob("ZZBatchedConnLossTwo", "", nil, []string{"both-callers-returned", "connection-was-cut", "pool-serves-again"}, "two callers in one batch (A: delete/touch/add/replace/gat on key 0, any presence; B: get key 1), connection cut before / after / inside the second or third reply: both callers return, B gets an error or its own data, the pool serves again"),
			bjob("ZZBatchedSlowConsumer", "", nil, []string{"get-ended"}, "a 3-key get with a consumer that takes each response only when nothing else can move; the connection is cut after the first reply of both attempts: an error or all three keys, never a partial answer without an error")},
		Thorough: []Job{bjob("ZZBatchedConnLoss", "connloss-batch2", map[string]int64{"batchsize": 2, "faultpositions": 4}, []string{"call-returned", "connection-was-cut", "pool-serves-again"}, "batch size 2, fault index 0..3")}})

	reg(Check{ID: "C11", Level: "model_checking", Assumptions: append([]string{
		"binary: the 24 header bytes are fully symbolic (magic fixed to 0x80 in quick, symbolic in thorough); consistent frames declare at most 23 body bytes (so no second header fits in the stream), contradictory frames (total < key+extras) are all covered; the client sends min(total,23) arbitrary body bytes and then waits",
		"allocation judged on the engine's allocation log: every make() between the start and the end of the connection loop, symbolic sizes asserted against 128 + (total - extras if consistent else 0) before they are concretised",
		"text: one command line of n arbitrary ASCII bytes + CRLF, then EOF (bytes >= 0x80 in command lines are outside the bound: the interpreted strings.TrimSpace would need the unicode tables)",
		"termination = the loop returns within the step budget with the connection closed exactly once; a read issued while the client waits is reported, not blocked on",
	}, stdAssumptions...),
		Quick: []Job{
			{Pkg: "./zz_verif/wire", Func: "ZZBinaryHeader", Reach: []string{"loop-returned", "contradictory-frame"}, Bounds: "all 2^8 opcodes x 2^16 key lengths x 2^8 extras lengths x 2^32 total lengths x opaque/cas/vbucket, body <= 23 bytes"},
			{Pkg: "./zz_verif/wire", Func: "ZZTextLine", Params: map[string]int64{"len": 6}, Reach: []string{"loop-returned"}, Bounds: "every 6-byte ASCII command line"},
			{Pkg: "./zz_verif/wire", Func: "ZZBinaryTruncated", Reach: []string{"loop-returned"}, Bounds: "10 kinds of well-formed binary requests (incl. quiet-get batches) cut at every byte offset, then EOF; afterwards a request on another connection decodes normally; pooled headers must not be returned twice"},
			{Pkg: "./zz_verif/wire", Func: "ZZTextManyLines", Reach: []string{"loop-returned"}, Bounds: "200 empty / blank / one-letter / bare-LF lines trickling in 16 bytes per read, then a version command: the call depth at the socket reads does not grow with the number of lines; last command answered"},
			{Pkg: "./zz_verif/wire", Func: "ZZTextTruncatedSet", Reach: []string{"loop-returned"}, Bounds: "text set/add/replace/append/prepend with a 2-byte data block; stream ends at every offset from the end of the command line to the end of the trailer; data and trailer bytes arbitrary"},
		},
		Thorough: []Job{
			{Pkg: "./zz_verif/wire", Func: "ZZBinaryHeader", Name: "ZZBinaryHeader-anymagic", Params: map[string]int64{"anymagic": 1}, Reach: []string{"loop-returned"}, Bounds: "as quick, first byte symbolic too"},
			{Pkg: "./zz_verif/wire", Func: "ZZTextLine", Name: "ZZTextLine-9", Params: map[string]int64{"len": 9}, Reach: []string{"loop-returned"}, Bounds: "every 9-byte ASCII command line"},
		}})

	w7 := func(fn, name string, params map[string]int64, reach []string, bounds string) Job {
		return Job{Pkg: "./zz_verif/wire", Func: fn, Name: name, Params: params, Reach: reach, Bounds: bounds}
	}
	two := []string{"first-parsed", "second-parsed"}
	reg(Check{ID: "C07", Level: "model_checking", Assumptions: append([]string{
		"requests are produced by independent encoders written from the protocol description (harness/zz_verif/wire/c07.go); key bytes, data bytes, flags, TTL, opaque are symbolic, lengths are concrete per run",
		"pipeline of two requests (first: every supported kind, second: set/get/quiet-get+noop/noop), one read boundary at every offset of the stream (A14: the fake socket returns any prefix up to the cut)",
		"text: keys are printable non-space bytes, numeric fields are symbolic decimal digit strings of the stated digit count (values within 32 bits), data blocks arbitrary bytes incl. CR/LF/0x80; the declared data length is concrete",
	}, stdAssumptions...),
		Quick: []Job{
			w7("ZZBinaryDecode", "binary-k2-d2", map[string]int64{"keylen": 2, "datalen": 2}, two, "24 request kinds x 4 followers x every cut offset; key 2 bytes, data 2 bytes"),
			w7("ZZTextDecode", "text-k2-d2-3digits", map[string]int64{"keylen": 2, "datalen": 2, "digits": 3}, two, "13 command kinds x 3 followers x every cut offset; key 2 bytes, data 2 bytes, 3-digit numeric fields"),
			w7("ZZDisambiguate", "", nil, []string{"disambiguated"}, "all 256 first bytes"),
			func() Job {
				j := w7("ZZTextLongLine", "text-line-over-4096", nil, two, "a text get of ~680 keys whose command line is just over the 4096-byte read buffer (a few key bytes symbolic), cut nowhere / at byte 4096 / before the last byte, followed by a set")
				j.LoopCap = 4000
				return j
			}(),
		},
		Thorough: []Job{
			w7("ZZBinaryDecode", "binary-k250-d5", map[string]int64{"keylen": 250, "datalen": 5}, two, "key 250 bytes, data 5 bytes"),
			w7("ZZBinaryDecode", "binary-k1-d0", map[string]int64{"keylen": 1, "datalen": 0}, two, "key 1 byte, empty data"),
			w7("ZZBinaryDecode", "binary-set-d4097", map[string]int64{"keylen": 3, "datalen": 4097, "kind1": 0}, two, "set with 4097 data bytes (bufio refill boundary)"),
			w7("ZZBinaryDecode", "binary-twocuts", map[string]int64{"keylen": 1, "datalen": 1, "twocuts": 1, "kind1": 13}, two, "two cuts, quiet batch GetQ GetQ Noop"),
			w7("ZZTextDecode", "text-k8-d5-5digits", map[string]int64{"keylen": 8, "datalen": 5, "digits": 5}, two, "key 8, data 5, 5-digit numeric fields"),
		}})

	reg(Check{ID: "C17", Level: "model_checking", Assumptions: append([]string{
		"A1: clock frozen during one command; entries expire at exptime relative to the symbolic instant, the boundary second (exptime == now) is left out",
		"TTLs up to 30 days (larger values are read as relative by this debug backend: documented simplification, not part of C17); GetE's expiry field is not compared",
		"map state: 2 keys (sequential) / 1 key (concurrent), membership enumerated, expiry/flags/bytes symbolic",
		"concurrency: 2 goroutines x 1 command, every interleaving at lock-operation granularity (A5: any waiter may win); lock discipline of the shared map enforced by an engine monitor (rt.Guard), natively confirmed under the race detector",
	}, stdAssumptions...),
		Quick: []Job{
			{Pkg: "./handlers/inmem", Func: "ZZStep", Reach: []string{"step-done"}, Bounds: "10 command kinds (incl. 2-key get/gete) from every 2-key map state"},
			{Pkg: "./handlers/inmem", Func: "ZZConcurrent", Sched: true, Race: true, Reach: []string{"both-done"}, Bounds: "2 goroutines x {set,add,delete,get,append,touch,gete} on one key, all schedules"},
			{Pkg: "./handlers/inmem", Func: "ZZConcurrent2Keys", Sched: true, Reach: []string{"both-done"}, Bounds: "a 2-key get / gete against a writer, all schedules at lock granularity (a pending writer keeps new readers out, as sync.RWMutex does)"},
			{Pkg: "./handlers/inmem", Func: "ZZHold", Reach: []string{"held"}, Bounds: "set; append; get/gete/gat (value held); prepend/append/set/delete: the held bytes are unchanged"},
		},
		Thorough: []Job{{Pkg: "./handlers/inmem", Func: "ZZStep", Name: "ZZStep-3keys-2bytes", Params: map[string]int64{"nk": 3, "len0": 2}, Reach: []string{"step-done"}, Bounds: "10 command kinds from every 3-key map state, stored values 2 bytes"}}})
}

func itoa(n int64) string { return strconv.FormatInt(n, 10) }
