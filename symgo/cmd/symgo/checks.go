package main

// The registry of property checks: which harnesses decide which property, with which bounds.

var checks = map[string]Check{}

func reg(c Check) { checks[c.ID] = c }

var stdAssumptions = []string{
	"A9: Go standard library interpreted from source below the intrinsics boundary, go/ssa lowering and the Go compiler used for replay are trusted",
	"A13: int/uint/uintptr are 64-bit",
	"solver: Z3 5.1.0 verdicts are trusted (thorough tier cross-checks assertion queries on Z3 4.8.12 and cvc5 1.0.3)",
}

func init() {
	reg(Check{
		ID: "C18", Level: "model_checking",
		Quick: []Job{
			{Pkg: "./metrics", Func: "ZZLzcnt", Name: "lzcnt-asm-vs-spec", Reach: []string{"lzcnt"}, Bounds: "all 2^64 inputs; amd64 assembly translated instruction by instruction"},
			{Pkg: "./metrics", Func: "ZZLzcntPortable", Name: "lzcnt-portable-vs-spec-and-asm", Reach: []string{"lzcnt"}, Bounds: "all 2^64 inputs; portable body re-emitted from metrics/lzcnt.go on every run"},
			{Pkg: "./metrics", Func: "ZZBucketBound", Reach: []string{"bucket"}, Bounds: "all n <= 2^63-1"},
			{Pkg: "./metrics", Func: "ZZBucketMonotone", Reach: []string{"bucket2"}, Bounds: "all n < 2^63-1 (successor form)"},
		},
		Assumptions: append([]string{"A10: lzcnt_amd64.s translated by a 9-mnemonic Plan-9 subset translator; BSRQ's destination on zero input is an arbitrary value"}, stdAssumptions...),
	})
}
