// Command symgo is the symbolic executor for geobeau/rend and the driver of the property checks.
package main

import (
	"encoding/json"
	"flag"
	"fmt"
	"os"
	"runtime"
	"runtime/debug"
	"runtime/pprof"
	"strconv"
	"strings"
	"sync"
	"time"

	"verif/symgo/interp"
)

func main() {
	if pf := os.Getenv("SYMGO_PROF"); pf != "" {
		f, _ := os.Create(pf)
		pprof.StartCPUProfile(f)
		defer pprof.StopCPUProfile()
		code := realMain()
		pprof.StopCPUProfile()
		os.Exit(code)
	}
	if pf := os.Getenv("SYMGO_MUTEXPROF"); pf != "" {
		runtime.SetMutexProfileFraction(5)
		runtime.SetBlockProfileRate(10000)
		code := realMain()
		f, _ := os.Create(pf)
		pprof.Lookup("mutex").WriteTo(f, 0)
		f.Close()
		f, _ = os.Create(pf + ".block")
		pprof.Lookup("block").WriteTo(f, 0)
		f.Close()
		os.Exit(code)
	}
	if pf := os.Getenv("SYMGO_MEMPROF"); pf != "" {
		runtime.MemProfileRate = 4096
		code := realMain()
		f, _ := os.Create(pf)
		pprof.Lookup("allocs").WriteTo(f, 0)
		f.Close()
		os.Exit(code)
	}
	os.Exit(realMain())
}

func realMain() int {
	debug.SetGCPercent(400)
	if len(os.Args) < 2 {
		fmt.Fprintln(os.Stderr, "usage: symgo run|check|replay ...")
		return 2
	}
	switch os.Args[1] {
	case "run":
		return cmdRun(os.Args[2:])
	case "check":
		return cmdCheck(os.Args[2:])
	case "replay":
		return cmdReplay(os.Args[2:])
	}
	fmt.Fprintln(os.Stderr, "unknown command", os.Args[1])
	return 2
}

type paramFlag map[string]int64

func (p paramFlag) String() string { return fmt.Sprint(map[string]int64(p)) }
func (p paramFlag) Set(s string) error {
	kv := strings.SplitN(s, "=", 2)
	if len(kv) != 2 {
		return fmt.Errorf("want k=v")
	}
	v, err := strconv.ParseInt(kv[1], 0, 64)
	if err != nil {
		return err
	}
	p[kv[0]] = v
	return nil
}

// cmdRun explores one harness function and prints the report.
func cmdRun(args []string) int {
	fs := flag.NewFlagSet("run", flag.ExitOnError)
	pkg := fs.String("pkg", "", "package pattern relative to the repository, e.g. ./metrics")
	fn := fs.String("func", "", "harness function")
	workers := fs.Int("workers", 8, "parallel workers")
	sched := fs.Bool("sched", false, "explore schedules")
	schedKinds := fs.String("schedkinds", "", "scheduling-point kinds (comma list; empty: all)")
	schedSkip := fs.String("schedskip", "", "packages whose sync operations are not scheduling points")
	loopcap := fs.Int("loopcap", 64, "solver-decided iterations per loop head")
	maxpaths := fs.Int("maxpaths", 200000, "path budget")
	qto := fs.Int("qtimeout", 20000, "solver timeout per query (ms)")
	goarch := fs.String("goarch", "", "GOARCH to load with")
	out := fs.String("out", "", "write the JSON report here")
	trace := fs.Bool("trace", false, "trace instructions")
	verbose := fs.Bool("v", false, "print failures in full")
	setup := fs.String("setup", "", "concrete set-up function (snapshot)")
	nosnap := fs.Bool("nosnapshot", false, "run initialisers on every path")
	params := paramFlag{}
	fs.Var(params, "p", "harness parameter k=v (repeatable)")
	fs.Parse(args)
	if os.Getenv("SYMGO_DBGZERO") != "" {
		var mu sync.Mutex
		cnt := map[string]int64{}
		interp.DebugZero = func(t string, n int64) { mu.Lock(); cnt[t] += n; mu.Unlock() }
		defer func() {
			for k, v := range cnt {
				if v > 100000 {
					fmt.Println("ZERO", k, v)
				}
			}
		}()
	}
	t0 := time.Now()
	l, err := load([]string{*pkg}, *goarch)
	if err != nil {
		fmt.Fprintln(os.Stderr, "load:", err)
		return 2
	}
	tl := time.Since(t0)
	cfg := interp.Config{Workers: *workers, Sched: *sched, SchedKinds: *schedKinds, SchedSkipPkgs: *schedSkip, LoopCap: *loopcap, MaxPaths: *maxpaths, QueryTimeoutMS: *qto, Trace: *trace, Params: params, Setup: *setup, NoSnapshot: *nosnap}
	res := interp.Explore(l.prog, l.pkgs[*pkg], *fn, cfg)
	printResult(res, *verbose)
	fmt.Printf("load %.1fs explore %.1fs\n", tl.Seconds(), res.WallSeconds)
	if *out != "" {
		b, _ := json.MarshalIndent(res, "", " ")
		os.WriteFile(*out, b, 0644)
	}
	if len(res.Failures) > 0 {
		return 1
	}
	if len(res.Inconclusive) > 0 {
		return 2
	}
	return 0
}

func printResult(r *interp.RunResult, verbose bool) {
	fmt.Printf("harness %s: paths=%d ended=%v decisions=%d forks=%d queries=%d (sat %d unsat %d unknown %d, %.2fs) modelreuse=%d instrs=%d maxquery=%dB goroutines<=%d\n",
		r.Harness, r.Paths, r.PathsEnded, r.Decisions, r.Forks, r.Queries, r.QSat, r.QUnsat, r.QUnknown, r.SolverSeconds, r.ModelReuse, r.Instrs, r.MaxQueryBytes, r.MaxGoroutines)
	fmt.Printf("  asserts proved=%v concrete=%v reached=%v\n", r.AssertsProved, r.AssertsConc, r.Reached)
	for _, m := range r.Inconclusive {
		fmt.Println("  INCONCLUSIVE:", m)
	}
	for j, f := range r.Failures {
		if j >= 8 && !verbose {
			fmt.Printf("  ... %d more failures\n", len(r.Failures)-j)
			break
		}
		fmt.Printf("  FAIL %s %s %s\n", f.Kind, f.ID, f.Msg)
		var parts []string
		for _, e := range f.Tape {
			parts = append(parts, fmt.Sprintf("%s=%d", e.Name, e.Val))
		}
		s := strings.Join(parts, " ")
		if len(s) > 600 && !verbose {
			s = s[:600] + "..."
		}
		fmt.Println("     tape:", s)
		if verbose {
			for _, t := range f.Trace {
				fmt.Println("     |", t)
			}
		}
	}
}
