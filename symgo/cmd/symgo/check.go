package main

import (
	"bufio"
	"encoding/json"
	"fmt"
	"os"
	"os/exec"
	"path/filepath"
	"sort"
	"strconv"
	"strings"
	"sync"
	"time"

	"verif/symgo/interp"
	"verif/symgo/smt"
)

// Job is one harness exploration inside a property check.
type Job struct {
	Name          string           // label in reports (defaults to Func)
	Pkg           string           // package pattern relative to the repository, e.g. ./metrics
	Func          string           // harness function
	Setup         string           // optional concrete set-up function run once (snapshot)
	GoArch        string           // optional GOARCH for loading (portable bodies)
	Params        map[string]int64 // harness parameters
	Sched         bool
	SchedKinds    string // scheduling-point kinds (empty: all)
	SchedSkipPkgs string
	LoopCap       int
	MaxPaths      int
	QTimeout      int      // ms
	Only          []string // assertion-id prefixes that belong to this property (others are judged by their own property's check)
	Reach         []string // reachability witnesses that must be hit on some path
	Race          bool     // native replay under the race detector (lock-discipline findings)
	NoReplay      bool     // native replay impossible (engine-only observation); reason in Note
	Note          string
	Bounds        string // human-readable bounds of this job
}

type Check struct {
	ID          string
	Level       string
	Quick       []Job
	Thorough    []Job
	Assumptions []string
	Funcs       []string // informational: main functions encoded
}

type knownFinding struct {
	kind     string // known | fixed
	property string
	harness  string
	assert   string
	conds    []string
	desc     string
	raw      string
}

func loadKnown() []knownFinding {
	f, err := os.Open(filepath.Join(verifDir(), "known_findings.txt"))
	if err != nil {
		return nil
	}
	defer f.Close()
	var out []knownFinding
	sc := bufio.NewScanner(f)
	for sc.Scan() {
		line := strings.TrimSpace(sc.Text())
		if line == "" || strings.HasPrefix(line, "#") {
			continue
		}
		k := knownFinding{raw: line}
		switch {
		case strings.HasPrefix(line, "known:"):
			k.kind = "known"
			line = strings.TrimPrefix(line, "known:")
		case strings.HasPrefix(line, "fixed:"):
			k.kind = "fixed"
			line = strings.TrimPrefix(line, "fixed:")
		default:
			continue
		}
		if j := strings.Index(line, "::"); j >= 0 {
			k.desc = strings.TrimSpace(line[j+2:])
			line = line[:j]
		}
		for _, f := range strings.Fields(line) {
			switch {
			case strings.HasPrefix(f, "property="):
				k.property = f[9:]
			case strings.HasPrefix(f, "harness="):
				k.harness = f[8:]
			case strings.HasPrefix(f, "assert="):
				k.assert = f[7:]
			case strings.HasPrefix(f, "when="):
				k.conds = append(k.conds, strings.Split(f[5:], ",")...)
			}
		}
		out = append(out, k)
	}
	return out
}

func tapeLookup(tape []interp.TapeEntry, name string) (uint64, bool) {
	for _, e := range tape {
		if e.Name == name {
			return e.Val, true
		}
	}
	return 0, false
}

func condHolds(tape []interp.TapeEntry, cond string) bool {
	for _, op := range []string{">=", "<=", "!=", "="} {
		if j := strings.Index(cond, op); j > 0 {
			name, rhs := cond[:j], cond[j+len(op):]
			want, err := strconv.ParseUint(rhs, 0, 64)
			if err != nil {
				return false
			}
			got, ok := tapeLookup(tape, name)
			if !ok {
				return false
			}
			switch op {
			case ">=":
				return got >= want
			case "<=":
				return got <= want
			case "!=":
				return got != want
			default:
				return got == want
			}
		}
	}
	return false
}

func (k knownFinding) matches(prop, harness string, f interp.Failure) bool {
	if k.kind != "known" || k.property != prop {
		return false
	}
	if k.harness != "" && k.harness != harness {
		return false
	}
	if k.assert != "" && k.assert != f.ID {
		return false
	}
	for _, c := range k.conds {
		if !condHolds(f.Tape, c) {
			return false
		}
	}
	return true
}

type jobReport struct {
	Job        string            `json:"job"`
	Harness    string            `json:"harness"`
	Bounds     string            `json:"bounds,omitempty"`
	Params     map[string]int64  `json:"params,omitempty"`
	Result     *interp.RunResult `json:"result"`
	Replayed   int               `json:"replayed"`
	OutOfScope int               `json:"out_of_scope_failures"`
	Agreed     int               `json:"agreed"`
	Note       string            `json:"note,omitempty"`
	scope      []string
}

func cmdCheck(args []string) int {
	if len(args) < 1 {
		fmt.Fprintln(os.Stderr, "usage: symgo check <property> [quick|thorough]")
		return 2
	}
	id := args[0]
	tier := "quick"
	if len(args) > 1 {
		tier = args[1]
	}
	if t := os.Getenv("VERIF_TIER"); t != "" && len(args) < 2 {
		tier = t
	}
	seed := 0
	if s := os.Getenv("VERIF_SEED"); s != "" {
		seed, _ = strconv.Atoi(s)
	}
	ck, ok := checks[id]
	if !ok {
		fmt.Fprintln(os.Stderr, "no check registered for", id)
		return 2
	}
	jobs := ck.Quick
	if tier == "thorough" {
		jobs = append(append([]Job{}, ck.Quick...), ck.Thorough...)
		if len(ck.Thorough) > 0 && ck.Thorough[0].Name == "!replace" {
			jobs = ck.Thorough[1:]
		}
	}
	only := os.Getenv("VERIF_ONLY") // debugging aid: run a single job
	t0 := time.Now()
	known := loadKnown()
	// load once per GOARCH
	byArch := map[string][]string{}
	for _, j := range jobs {
		if only != "" && j.Func != only && j.Name != only {
			continue
		}
		seen := false
		for _, p := range byArch[j.GoArch] {
			if p == j.Pkg {
				seen = true
			}
		}
		if !seen {
			byArch[j.GoArch] = append(byArch[j.GoArch], j.Pkg)
		}
	}
	loadedBy := map[string]*loaded{}
	for arch, pats := range byArch {
		l, err := load(pats, arch)
		if err != nil {
			fmt.Fprintf(os.Stderr, "INCONCLUSIVE property=%s: load failed: %v\n", id, err)
			writeEvidence(id, tier, seed, ck, nil, time.Since(t0), 0, []string{"load failed: " + err.Error()})
			return 2
		}
		loadedBy[arch] = l
	}
	var reports []jobReport
	violations, knownHits := 0, 0
	var inconclusive []string
	printedKnown := map[string]bool{}
	replayDir := filepath.Join(outDir(), "replays", id)
	os.MkdirAll(replayDir, 0755)
	nReplay := 0
	type jobOut struct {
		rep          jobReport
		lines        []string
		inconclusive []string
		violations   int
		knownHits    int
	}
	var selected []Job
	for _, j := range jobs {
		if only != "" && j.Func != only && j.Name != only {
			continue
		}
		selected = append(selected, j)
	}
	outs := make([]*jobOut, len(selected))
	var pmu sync.Mutex
	runJob := func(idx int, j Job) {
		o := &jobOut{}
		outs[idx] = o
		say := func(format string, a ...interface{}) { o.lines = append(o.lines, fmt.Sprintf(format, a...)) }
		name := j.Name
		if name == "" {
			name = j.Func
		}
		l := loadedBy[j.GoArch]
		params := map[string]int64{"seed": int64(seed)}
		for k, v := range j.Params {
			params[k] = v
		}
		cfg := interp.Config{Workers: 8, Sched: j.Sched, SchedKinds: j.SchedKinds, SchedSkipPkgs: j.SchedSkipPkgs, LoopCap: j.LoopCap, MaxPaths: j.MaxPaths, QueryTimeoutMS: j.QTimeout, Params: params, KeepScripts: 0, Setup: j.Setup}
		if tier == "thorough" {
			cfg.KeepScripts = 40
			if cfg.QueryTimeoutMS == 0 {
				cfg.QueryTimeoutMS = 120000
			}
		}
		res := interp.Explore(l.prog, l.pkgs[j.Pkg], j.Func, cfg)
		rep := jobReport{Job: name, Harness: res.Harness, Bounds: j.Bounds, Params: j.Params, Result: res, Note: j.Note, scope: j.Only}
		say("[%s] %s: paths=%d queries=%d (unknown %d) solver=%.1fs wall=%.1fs proved=%d failures=%d", id, name, res.Paths, res.Queries, res.QUnknown, res.SolverSeconds, res.WallSeconds, sumMap(res.AssertsProved), len(res.Failures))
		for _, m := range res.Inconclusive {
			o.inconclusive = append(o.inconclusive, name+": "+m)
		}
		for _, w := range j.Reach {
			if res.Reached[w] == 0 {
				o.inconclusive = append(o.inconclusive, fmt.Sprintf("%s: vacuous: reachability witness %q not hit on any path", name, w))
			}
		}
		if len(j.Reach) == 0 && len(res.Reached) == 0 {
			o.inconclusive = append(o.inconclusive, name+": vacuous: no reachability witness hit")
		}
		rp := newReplayer(j, l.pkgs[j.Pkg].Pkg.Name(), replayDir)
		type pending struct {
			f     interp.Failure
			known *knownFinding
		}
		var pend []pending
		seenSig := map[string]int{}
		for _, f := range res.Failures {
			// a crash, hang, race or structural breach is never "another property's assertion"
			if f.Kind == "assert" && !inScope(j.Only, f.ID) {
				rep.OutOfScope++
				continue
			}
			var kf *knownFinding
			for k := range known {
				if known[k].matches(id, j.Func, f) {
					kf = &known[k]
					break
				}
			}
			sig := f.Kind + "|" + f.ID
			if kf != nil {
				sig += "|" + kf.raw
			}
			if seenSig[sig] >= 2 {
				continue
			}
			seenSig[sig]++
			pend = append(pend, pending{f, kf})
		}
		for _, p := range pend {
			pmu.Lock()
			nReplay++
			n := nReplay
			pmu.Unlock()
			path := filepath.Join(replayDir, fmt.Sprintf("%s-%d.json", j.Func, n))
			writeReplayFile(path, id, j, p.f)
			confirmed, why := true, "not replayed natively: "+j.Note
			schedDep := false
			if p.f.Kind == "structural" {
				// engine-observed structural breach (e.g. an object put into its pool twice): there is no
				// native observation point for it; reported with the engine's trace
				confirmed, why = true, ""
			} else if !j.NoReplay {
				if j.Sched && p.f.Kind == "assert" {
					rp.stress = 3000
				}
				confirmed, why = rp.replay(path, p.f)
				rp.stress = 0
				rep.Replayed++
				if confirmed {
					rep.Agreed++
				} else if j.Sched && (p.f.Kind == "assert" || p.f.Kind == "deadlock") && why != "tape diverged" && !strings.HasPrefix(why, "native build failed") {
					// The counterexample needs the explored interleaving, which a native run cannot be
					// forced into; it is reported with its schedule trace, marked as not reproduced.
					confirmed, schedDep = true, true
				}
			}
			switch {
			case !confirmed:
				o.inconclusive = append(o.inconclusive, fmt.Sprintf("%s: counterexample for %s did not reproduce natively (%s): engine/model problem, not reported as violation; see %s", name, p.f.ID, why, path))
			case p.known != nil:
				o.knownHits++
				pmu.Lock()
				first := !printedKnown[p.known.raw]
				printedKnown[p.known.raw] = true
				pmu.Unlock()
				if first {
					say("KNOWN-FINDING: property=%s %s [%s %s]", id, p.known.desc, j.Func, p.f.ID)
				}
			default:
				o.violations++
				say("VIOLATION property=%s replay=%s", id, path)
				say("  harness=%s assertion=%s %s\n  input: %s", j.Func, p.f.ID, p.f.Msg, tapeString(p.f.Tape, 400))
				if schedDep {
					say("  (schedule-dependent: 3000 native runs with these inputs did not hit the interleaving; the explored schedule is in the replay file)")
				}
			}
		}
		if !j.NoReplay && len(res.Samples) > 0 {
			nS := 1
			if tier == "thorough" {
				nS = len(res.Samples)
			}
			for k := 0; k < nS && k < len(res.Samples); k++ {
				s := res.Samples[k]
				path := filepath.Join(replayDir, fmt.Sprintf("%s-%s-sample%d.json", j.Func, name, k))
				writeReplayFile(path, id, j, interp.Failure{Kind: "sample", Tape: s.Tape})
				ok, why := rp.replaySample(path)
				if !ok && !strings.HasPrefix(why, "native build failed") {
					// natively the harness runs real goroutines and timers: one retry before a
					// disagreement is believed
					ok, why = rp.replaySample(path)
				}
				rep.Replayed++
				if ok {
					rep.Agreed++
				} else {
					o.inconclusive = append(o.inconclusive, fmt.Sprintf("%s: conformance: native run of a passing path disagrees (%s); see %s", name, why, path))
				}
			}
		}
		rp.cleanup()
		o.rep = rep
	}
	// jobs run three at a time (many are single-path solver-bound queries)
	sem := make(chan struct{}, 3)
	var jwg sync.WaitGroup
	for idx, j := range selected {
		jwg.Add(1)
		sem <- struct{}{}
		go func(idx int, j Job) {
			defer func() { <-sem; jwg.Done() }()
			runJob(idx, j)
		}(idx, j)
	}
	jwg.Wait()
	for _, o := range outs {
		for _, l := range o.lines {
			fmt.Println(l)
		}
		reports = append(reports, o.rep)
		inconclusive = append(inconclusive, o.inconclusive...)
		violations += o.violations
		knownHits += o.knownHits
	}
	// cross-check of assertion queries on the other solvers (thorough)
	var xc *crossCheck
	if tier == "thorough" {
		xc = runCrossCheck(reports)
		if xc.Disagree > 0 {
			inconclusive = append(inconclusive, fmt.Sprintf("solver cross-check: %d disagreements", xc.Disagree))
		}
	}
	writeEvidence(id, tier, seed, ck, reports, time.Since(t0), violations, inconclusive, xc)
	for _, m := range inconclusive {
		fmt.Printf("INCONCLUSIVE property=%s %s\n", id, m)
	}
	fmt.Printf("[%s] %s: violations=%d known-findings=%d inconclusive=%d wall=%.1fs\n", id, tier, violations, knownHits, len(inconclusive), time.Since(t0).Seconds())
	if violations > 0 {
		return 1
	}
	if len(inconclusive) > 0 {
		return 2
	}
	return 0
}

func inScope(only []string, id string) bool {
	if len(only) == 0 {
		return true
	}
	for _, p := range only {
		if strings.HasPrefix(id, p) {
			return true
		}
	}
	return false
}

func sumMap(m map[string]int) int {
	n := 0
	for _, v := range m {
		n += v
	}
	return n
}

func tapeString(t []interp.TapeEntry, max int) string {
	var parts []string
	for _, e := range t {
		parts = append(parts, fmt.Sprintf("%s=%d", e.Name, e.Val))
	}
	s := strings.Join(parts, " ")
	if len(s) > max {
		s = s[:max] + "..."
	}
	return s
}

type replayFile struct {
	Property string             `json:"property"`
	Pkg      string             `json:"pkg"`
	Func     string             `json:"func"`
	Params   map[string]int64   `json:"params"`
	Kind     string             `json:"kind"`
	Assert   string             `json:"assert"`
	Msg      string             `json:"msg,omitempty"`
	Tape     []interp.TapeEntry `json:"tape"`
	Trace    []string           `json:"trace,omitempty"`
	Setup    string             `json:"setup,omitempty"`
}

func writeReplayFile(path, id string, j Job, f interp.Failure) {
	rf := replayFile{Property: id, Pkg: j.Pkg, Func: j.Func, Params: j.Params, Kind: f.Kind, Assert: f.ID, Msg: f.Msg, Tape: f.Tape, Trace: f.Trace, Setup: j.Setup}
	b, _ := json.MarshalIndent(rf, "", " ")
	os.WriteFile(path, b, 0644)
}

// ---------------------------------------------------------------- native replay

type replayer struct {
	job      Job
	pkgName  string
	dir      string
	bin      string
	built    bool
	stress   int
	buildErr string
	work     string
}

func newReplayer(j Job, pkgName, dir string) *replayer {
	return &replayer{job: j, pkgName: pkgName, dir: dir}
}

func goEnv() []string {
	return append(os.Environ(), "GOFLAGS=-mod=mod", "GOPROXY=off", "GOSUMDB=off", "GOTOOLCHAIN=local")
}

// build compiles the harness package natively (go test -c with the overlay).
func (r *replayer) build() bool {
	if r.built {
		return r.buildErr == ""
	}
	r.built = true
	work, err := os.MkdirTemp(r.dir, "build")
	if err != nil {
		r.buildErr = err.Error()
		return false
	}
	r.work = work
	ov, err := overlayFiles()
	if err != nil {
		r.buildErr = err.Error()
		return false
	}
	// schedule-dependent counterexamples are replayed as a stress loop (VERIF_STRESS iterations):
	// the inputs are the solver's, the interleaving is left to the Go scheduler
	test := fmt.Sprintf("package %s\n\nimport (\n\t\"os\"\n\t\"strconv\"\n\t\"testing\"\n\n\t\"github.com/netflix/rend/zz_verif/rt\"\n)\n\nfunc TestZZReplay(t *testing.T) {\n\tn := 1\n\tif s := os.Getenv(\"VERIF_STRESS\"); s != \"\" {\n\t\tn, _ = strconv.Atoi(s)\n\t}\n\tfor i := 0; i < n; i++ {\n\t\trt.Start()\n%s\t\trt.Run(%s)\n\t\tif len(rt.Failed) > 0 {\n\t\t\tbreak\n\t\t}\n\t}\n\trt.Finish()\n}\n", r.pkgName, setupCall(r.job.Setup), r.job.Func)
	testPath := filepath.Join(work, "zz_replay_test.go")
	os.WriteFile(testPath, []byte(test), 0644)
	ov[filepath.Join(repoDir(), strings.TrimPrefix(r.job.Pkg, "./"), "zz_replay_test.go")] = testPath
	ovb, _ := json.Marshal(map[string]interface{}{"Replace": ov})
	ovPath := filepath.Join(work, "overlay.json")
	os.WriteFile(ovPath, ovb, 0644)
	r.bin = filepath.Join(work, "replay.test")
	args := []string{"test", "-c", "-vet=off", "-overlay", ovPath, "-o", r.bin}
	if r.job.Race {
		args = append(args, "-race")
	}
	cmd := exec.Command("go", append(args, r.job.Pkg)...)
	cmd.Dir = repoDir()
	cmd.Env = goEnv()
	out, err := cmd.CombinedOutput()
	if err != nil {
		r.buildErr = "native build failed: " + err.Error() + ": " + lastLines(string(out), 6)
		return false
	}
	return true
}

func setupCall(f string) string {
	if f == "" {
		return ""
	}
	return "\t" + f + "()\n"
}

func lastLines(s string, n int) string {
	l := strings.Split(strings.TrimSpace(s), "\n")
	if len(l) > n {
		l = l[len(l)-n:]
	}
	return strings.Join(l, " | ")
}

func (r *replayer) run(tapePath string) (string, bool) {
	params, _ := json.Marshal(r.job.Params)
	cmd := exec.Command(r.bin, "-test.run", "^TestZZReplay$", "-test.timeout", "60s", "-test.v")
	cmd.Dir = filepath.Join(repoDir(), strings.TrimPrefix(r.job.Pkg, "./"))
	if _, err := os.Stat(cmd.Dir); err != nil {
		cmd.Dir = repoDir()
	}
	cmd.Env = append(goEnv(), "VERIF_TAPE="+tapePath, "VERIF_PARAMS="+string(params))
	if r.stress > 0 {
		cmd.Env = append(cmd.Env, "VERIF_STRESS="+strconv.Itoa(r.stress))
	}
	done := make(chan struct{})
	var out []byte
	go func() { out, _ = cmd.CombinedOutput(); close(done) }()
	select {
	case <-done:
		return string(out), false
	case <-time.After(90 * time.Second):
		if cmd.Process != nil {
			cmd.Process.Kill()
		}
		<-done
		return string(out), true
	}
}

// replay re-runs a counterexample natively; confirmed = the same failure shows.
func (r *replayer) replay(tapePath string, f interp.Failure) (bool, string) {
	if !r.build() {
		return false, r.buildErr
	}
	out, timedOut := r.run(tapePath)
	os.WriteFile(strings.TrimSuffix(tapePath, ".json")+".native.txt", []byte(out), 0644)
	if strings.Contains(out, "VERIF-REPLAY-DIVERGED") {
		return false, "tape diverged"
	}
	if strings.Contains(out, "VERIF-ASSUME-FALSE") {
		return false, "assumption false natively"
	}
	switch f.Kind {
	case "assert":
		if strings.Contains(out, "VERIF-ASSERT-FAIL "+f.ID) {
			return true, ""
		}
		// the native run did not get as far as the assertion because the process died (e.g. the
		// run time's unrecoverable "unlock of unlocked mutex"): the counterexample is real, and worse
		if strings.Contains(out, "fatal error:") || strings.Contains(out, "VERIF-PANIC") || strings.Contains(out, "\npanic:") {
			return true, ""
		}
		return false, "assertion held natively"
	case "crash":
		if strings.Contains(out, "VERIF-PANIC") || strings.Contains(out, "panic:") || strings.Contains(out, "fatal error:") {
			return true, ""
		}
		return false, "no crash natively"
	case "race":
		if strings.Contains(out, "DATA RACE") || strings.Contains(out, "concurrent map") {
			return true, ""
		}
		return false, "race detector silent natively"
	case "deadlock":
		if timedOut || strings.Contains(out, "all goroutines are asleep") || strings.Contains(out, "test timed out") {
			return true, ""
		}
		return false, "no hang natively"
	}
	return false, "unknown failure kind"
}

func (r *replayer) replaySample(tapePath string) (bool, string) {
	if !r.build() {
		return false, r.buildErr
	}
	out, timedOut := r.run(tapePath)
	if timedOut {
		return false, "native run timed out"
	}
	if strings.Contains(out, "VERIF-ASSERT-FAIL") || strings.Contains(out, "DATA RACE") {
		os.WriteFile(strings.TrimSuffix(tapePath, ".json")+".native.txt", []byte(out), 0644)
		return false, "assertion failed or race reported natively: " + lastLines(out, 3)
	}
	if strings.Contains(out, "VERIF-REPLAY-DIVERGED") {
		return false, "tape diverged"
	}
	if !strings.Contains(out, "VERIF-REPLAY-DONE") {
		os.WriteFile(strings.TrimSuffix(tapePath, ".json")+".native.txt", []byte(out), 0644)
		return false, "native run did not finish: " + lastLines(out, 3)
	}
	return true, ""
}

func (r *replayer) cleanup() {
	if r.work != "" {
		os.RemoveAll(r.work)
	}
}

// cmdReplay re-runs a recorded counterexample natively and prints the outcome.
func cmdReplay(args []string) int {
	if len(args) < 1 {
		fmt.Fprintln(os.Stderr, "usage: symgo replay <file>")
		return 2
	}
	b, err := os.ReadFile(args[0])
	if err != nil {
		fmt.Fprintln(os.Stderr, err)
		return 2
	}
	var rf replayFile
	if err := json.Unmarshal(b, &rf); err != nil {
		fmt.Fprintln(os.Stderr, err)
		return 2
	}
	l, err := load([]string{rf.Pkg}, "")
	if err != nil {
		fmt.Fprintln(os.Stderr, err)
		return 2
	}
	j := Job{Pkg: rf.Pkg, Func: rf.Func, Params: rf.Params, Setup: rf.Setup}
	dir := filepath.Join(outDir(), "replays", rf.Property)
	os.MkdirAll(dir, 0755)
	rp := newReplayer(j, l.pkgs[rf.Pkg].Pkg.Name(), dir)
	defer rp.cleanup()
	if !rp.build() {
		fmt.Println(rp.buildErr)
		return 2
	}
	out, timedOut := rp.run(args[0])
	fmt.Print(out)
	if timedOut {
		fmt.Println("(timed out)")
	}
	if strings.Contains(out, "VERIF-ASSERT-FAIL") || strings.Contains(out, "VERIF-PANIC") || timedOut {
		fmt.Printf("REPRODUCED property=%s assertion=%s\n", rf.Property, rf.Assert)
		return 1
	}
	return 0
}

// ---------------------------------------------------------------- solver cross-check

type crossCheck struct {
	Scripts  int                `json:"scripts"`
	Agree    int                `json:"agree"`
	Disagree int                `json:"disagree"`
	Timeouts int                `json:"timeouts"`
	Seconds  map[string]float64 `json:"seconds"`
}

func runCrossCheck(reports []jobReport) *crossCheck {
	xc := &crossCheck{Seconds: map[string]float64{}}
	var scripts []string
	for _, r := range reports {
		scripts = append(scripts, r.Result.Scripts...)
	}
	if len(scripts) > 120 {
		scripts = scripts[:120]
	}
	xc.Scripts = len(scripts)
	type sv struct {
		bin  string
		args []string
	}
	solvers := []sv{{"z3-new", []string{"-in", "-T:60"}}, {"/usr/bin/z3", []string{"-in", "-T:60"}}, {"cvc5", []string{"--lang=smt2", "--tlimit=60000"}}}
	var mu sync.Mutex
	sem := make(chan struct{}, 16)
	var wg sync.WaitGroup
	for _, s := range scripts {
		s := s
		wg.Add(1)
		sem <- struct{}{}
		go func() {
			defer func() { <-sem; wg.Done() }()
			verdicts := map[string]bool{}
			to := 0
			for _, so := range solvers {
				v, d := smt.RunScript(so.bin, so.args, s, 70*time.Second)
				mu.Lock()
				xc.Seconds[so.bin] += d.Seconds()
				mu.Unlock()
				if v == "sat" || v == "unsat" {
					verdicts[v] = true
				} else {
					to++
				}
			}
			mu.Lock()
			if len(verdicts) > 1 {
				xc.Disagree++
			} else {
				xc.Agree++
			}
			xc.Timeouts += to
			mu.Unlock()
		}()
	}
	wg.Wait()
	return xc
}

// ---------------------------------------------------------------- evidence

func writeEvidence(id, tier string, seed int, ck Check, reports []jobReport, wall time.Duration, violations int, inconclusive []string, xcs ...*crossCheck) {
	states, transitions, validated := 0, 0, 0
	queries, qunsat, qsat, qunk := 0, 0, 0, 0
	solverS := 0.0
	var samples []interface{}
	funcs := map[string]int{}
	var jobs []map[string]interface{}
	proved := 0
	for _, r := range reports {
		res := r.Result
		states += res.Paths
		transitions += res.Decisions
		validated += r.Agreed
		queries += res.Queries
		qunsat += res.QUnsat
		qsat += res.QSat
		qunk += res.QUnknown
		solverS += res.SolverSeconds
		proved += sumMap(res.AssertsProved) + sumMap(res.AssertsConc)
		for f, n := range res.Funcs {
			funcs[f] += n
		}
		for k, s := range res.Samples {
			if k >= 2 {
				break
			}
			samples = append(samples, map[string]interface{}{"job": r.Job, "input": tapeString(s.Tape, 300), "decisions": s.Decisions, "assertions_checked": s.Asserts, "reached": s.Reached})
		}
		for k, f := range res.Failures {
			if k >= 3 {
				break
			}
			samples = append(samples, map[string]interface{}{"job": r.Job, "counterexample_for": f.ID, "input": tapeString(f.Tape, 300)})
		}
		jobs = append(jobs, map[string]interface{}{
			"job": r.Job, "harness": res.Harness, "bounds": r.Bounds, "params": r.Params, "paths": res.Paths, "paths_ended": res.PathsEnded,
			"decisions": res.Decisions, "queries": res.Queries, "unsat": res.QUnsat, "sat": res.QSat, "unknown": res.QUnknown,
			"solver_s": round2(res.SolverSeconds), "wall_s": round2(res.WallSeconds), "asserts_proved_by_solver": res.AssertsProved,
			"asserts_true_concretely": res.AssertsConc, "reached": res.Reached, "failures": len(res.Failures), "instructions": res.Instrs,
			"failures_judged_by_other_properties": r.OutOfScope, "assertion_scope": r.scope, "native_replays": r.Replayed, "native_agreed": r.Agreed, "note": r.Note, "max_goroutines": res.MaxGoroutines,
		})
	}
	if len(samples) == 0 {
		samples = append(samples, "no path produced inputs (see jobs)")
	}
	var fl []string
	for f := range funcs {
		fl = append(fl, f)
	}
	sort.Strings(fl)
	if len(fl) > 150 {
		fl = fl[:150]
	}
	if states == 0 {
		states = 0
	}
	cov := map[string]interface{}{
		"states": states, "transitions": transitions, "traces_validated_against_impl": validated, "samples": samples,
		"explanation":       "states = symbolic paths completed; transitions = solver/environment-decided decisions on them; every assertion on every path is decided by an SMT query over all values of the symbolic inputs inside the stated bounds",
		"functions_encoded": fl, "jobs": jobs, "queries": queries, "queries_unsat": qunsat, "queries_sat": qsat, "queries_unknown": qunk,
		"solver_seconds": round2(solverS), "assertion_instances_discharged": proved, "inconclusive": inconclusive, "solver": "z3 5.1.0 (z3-new -in), incremental, one process per worker",
		"exhaustive": len(inconclusive) == 0,
	}
	if len(xcs) > 0 && xcs[0] != nil {
		cov["solver_cross_check"] = xcs[0]
	}
	ev := map[string]interface{}{
		"property_id": id, "tier": tier, "seed": seed, "level": ck.Level, "coverage": cov, "assumptions": ck.Assumptions,
		"wall_s": round2(wall.Seconds()), "violations": violations,
	}
	if ck.Level == "" {
		ev["level"] = "model_checking"
	}
	b, _ := json.MarshalIndent(ev, "", " ")
	os.MkdirAll(filepath.Join(outDir(), "evidence"), 0755)
	os.WriteFile(filepath.Join(outDir(), "evidence", id+".json"), b, 0644)
}

func round2(f float64) float64 { return float64(int64(f*100+0.5)) / 100 }
