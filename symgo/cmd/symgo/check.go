package main

func cmdCheck(args []string) int  { return 2 }
func cmdReplay(args []string) int { return 2 }
